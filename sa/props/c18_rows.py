"""C18 clauses decided on effect rows: the context that is keyed is the context that builds the pool (R2), the key
normaliser (R4), the cache access (R6), the proxy context (R7)."""
from __future__ import annotations

import ast

from .. import astq
from ..model import AnalysisError
from ..rows import GenRule, effect_rows, helper_closure
from ..terms import K, T, destruct, subst, subterms

PM = "urllib3.poolmanager"
MGR = f"{PM}.PoolManager"


def rows_of(ctx, fi, cls=None, drop=(), **kw):
    inl = set(helper_closure(ctx.model, [fi], stop=tuple(drop))) - {fi.qual}
    return effect_rows(ctx, fi, GenRule(ctx, fi.module, inline=inl, **kw), cls or (fi.clsq if fi.cls else None), budget=3000000)


def _args(e):
    return [a for a in e[2:] if isinstance(a, str)]


def _kw(args):
    out = {}
    for a in args:
        head = a.split("(", 1)[0]
        if "=" in head:
            k, v = a.split("=", 1)
            out[k] = v
    return out


def _pos(args):
    return [a for a in args if "=" not in a.split("(", 1)[0]]


def _atoms(t):
    return {x for x in subterms(t) if destruct(x)[0] is None and x}


def _mutations(r, target):
    """events that change the mapping `target` on this row: (kind, key, value, loop)"""
    out = []
    for e in r.ev:
        loop = next((x[1:] for x in e if isinstance(x, tuple) and x and x[0] == "in"), ())
        if e[0] == "setitem" and e[1] == target:
            out.append(("store", e[2], e[3], loop))
        elif e[0] == "delitem" and e[1] == target:
            out.append(("del", e[2], None, loop))
        elif e[0] == "call" and e[1].startswith(target + ".") and e[1][len(target) + 1:] in ("pop", "popitem", "clear", "update", "setdefault", "__setitem__", "__delitem__"):
            a = _args(e)
            out.append((e[1][len(target) + 1:], a[0] if a else None, tuple(a[1:]), loop))
    return out


def r2_one_context(ctx, R2, ssl_kw):
    m = ctx.model
    # ---- connection_from_context
    cfc = m.func(f"{MGR}.connection_from_context")
    RC = f"p:{cfc.params()[0]}"
    rows = [r for r in rows_of(ctx, cfc, drop=("connection_from_pool_key",)) if r.returns]
    ctx.sites(R2, len(rows), 1, "returning rows of connection_from_context")
    seen = set()
    for r in rows:
        calls = [_args(e) for e in r.events("call") if e[1] == "self.connection_from_pool_key"]
        if len(calls) != 1:
            ctx.ob(R2, cfc.qual, "exactly one pool lookup per context", False, str(calls), witness=r.witness(), node=cfc.node)
            continue
        a = calls[0]
        kw, pos = _kw(a), _pos(a)
        key = kw.get("pool_key", pos[0] if pos else None)
        pool_ctx = kw.get("request_context", pos[1] if len(pos) > 1 else None)
        muts = _mutations(r, RC)
        k_ = (key, pool_ctx, tuple((x[0], x[1]) for x in muts))
        if k_ in seen:
            continue
        seen.add(k_)
        op, ka = destruct(key or "")
        same = op == "call" and len(ka) == 2 and ka[1] == RC and pool_ctx == RC
        ctx.ob(R2, cfc.qual, "key function and pool creation receive the same context object", same, f"key = {str(key)[:90]}, pool gets {pool_ctx}", witness=r.witness(), node=cfc.node)
        fn = ka[0] if op == "call" and ka else ""
        fop, fa = destruct(fn)
        okf = fop in ("get", "idx") and fa[:1] == ("self.key_fn_by_scheme",) and len(fa) >= 2 and _atoms(fa[1]) <= {RC, K("scheme")} and RC in _atoms(fa[1])
        ctx.ob(R2, cfc.qual, "key function is looked up in key_fn_by_scheme by this context's scheme", okf, fn[:100], witness=r.witness(), node=cfc.node)
        bad = [x for x in muts if not (x[0] in ("pop", "del") and x[1] == K("strict"))]
        ctx.ob(R2, cfc.qual, "context not altered between keying and pool creation", not bad, "; ".join(map(str, bad))[:200], witness=r.witness(), node=cfc.node)
    # ---- _new_pool
    newpool = m.func(f"{MGR}._new_pool")
    if "request_context" not in newpool.params():
        raise AnalysisError("_new_pool has no request_context parameter")
    rows = [r for r in rows_of(ctx, newpool) if r.returns]
    ctx.sites(R2, len(rows), 2, "returning rows of _new_pool")
    seen = set()
    for r in rows:
        given = r.is_none("p:request_context")
        CTXS = ["p:request_context"] if given is False else [T("copy", "self.connection_pool_kw"), T("dict", "self.connection_pool_kw")]
        op, a = destruct(r.ret or "")
        C = next((c for c in CTXS if f"**={c}" in a), None)
        pos, kw = _pos(list(a[1:])) if op == "call" else [], _kw(list(a[1:])) if op == "call" else {}
        cls_t = a[0] if op == "call" and a else ""
        okc = op == "call" and C is not None and pos[:2] == ["p:host", "p:port"] and not [k for k in kw if k != "**"] \
            and destruct(cls_t)[0] in ("idx", "get") and destruct(cls_t)[1][:2] == ("self.pool_classes_by_scheme", "p:scheme")
        muts = _mutations(r, C) if C else []
        http = r.cmp("p:scheme", "==", K("http"))
        k_ = (given, okc, tuple((x[0], x[1], x[3]) for x in muts), http)
        if k_ in seen:
            continue
        seen.add(k_)
        ctx.ob(R2, newpool.qual, f"pool is pool_classes_by_scheme[scheme](host, port, **context) from the keyed context only (context given: {given is False})", okc,
               "" if okc else f"returns {(r.ret or '')[:120]}", witness=r.witness(), node=newpool.node)
        for kind, key, val, loop in muts:
            if kind in ("pop", "del"):
                ok, detail = True, "removal"
                # SSL keywords may be stripped only for plain http
                removed = set()
                for t_ in list(loop[:1]) + [key or ""]:
                    for x_ in subterms(t_):
                        o_, a_ = destruct(x_)
                        if o_ == "const" and isinstance(a_, (tuple, list, frozenset, set)):
                            removed |= {y_ for y_ in a_ if isinstance(y_, str)}
                        elif o_ == "const" and isinstance(a_, str):
                            removed.add(a_)
                        elif o_ == "tuple":
                            removed |= set(_const_tuple(x_))
                if removed & ssl_kw:
                    ok = http is True
                    detail = "SSL keywords stripped only for scheme http" if ok else "TLS settings are dropped for a non-http pool: pools with different TLS settings become interchangeable"
            elif kind == "setdefault":
                # setdefault(k, <constant>) only ever adds the default for a missing entry
                ok = key == K("blocksize") and len(val or ()) == 1 and destruct(val[0])[0] == "const"
                detail = "default for a missing entry" if ok else "adds a setting that was not keyed"
            elif kind == "store":
                missing = r.is_none(T("get", C, K("blocksize"))) is True or r.cmp(K("blocksize"), "in", C) is False or r.is_none(T("idx", C, K("blocksize"))) is True \
                    or any(isinstance(k2, str) and k2.startswith(f"{C}.setdefault({K('blocksize')},") and v2[1] is True for k2, v2 in r.st.facts.items())
                ok = key == K("blocksize") and destruct(val or "")[0] == "const" and missing
                detail = "default for a missing entry" if ok else "adds/overrides a setting that was not keyed"
            else:
                ok, detail = False, f"{kind} on the keyed context"
            ctx.ob(R2, newpool.qual, f"mutation {kind} {str(key)[:60]}", ok, detail, witness=r.witness(), node=newpool.node)
    # ---- connection_from_host (context = merged defaults + this call's scheme/host/port, then keyed)
    from .c15_rows import context_slots
    cfh = m.func(f"{MGR}.connection_from_host")
    rows = [r for r in rows_of(ctx, cfh, drop=("_merge_pool_kwargs", "connection_from_context")) if r.returns]
    ctx.sites(R2, len(rows), 2, "returning rows of connection_from_host")
    seen = set()
    for r in rows:
        keyed = [_args(e) for e in r.events("call") if e[1] == "self.connection_from_context"]
        C = keyed[-1][0] if keyed and keyed[-1] else None
        slots, order = context_slots(r, C) if C else ({}, [])
        k_ = (C, tuple(sorted(slots.items())))
        if k_ in seen:
            continue
        seen.add(k_)
        ok = C is not None and destruct(C) == ("self._merge_pool_kwargs", ("p:pool_kwargs",)) and len(keyed) == 1
        ctx.ob(R2, cfh.qual, "request context starts from the merged defaults and is the one that is keyed", ok, f"keyed: {keyed}"[:150], witness=r.witness(), node=cfh.node)
        for nm in ("scheme", "host", "port"):
            v = subst(slots.get(nm) or "", T("idx", C or "?", K("scheme")), slots.get("scheme") or "?")
            allowed = {f"p:{nm}"} | ({"p:scheme", "g:port_by_scheme"} if nm == "port" else set())
            at = {x for x in _atoms(v) if destruct(x)[0] != "const" and x[:1] not in ("'", '"', "-") and not x[:1].isdigit()}
            okv = bool(v) and at <= allowed and (f"p:{nm}" in at or r.truth(f"p:{nm}") is False)
            ctx.ob(R2, cfh.qual, f"context[{nm!r}] derives from the {nm} argument", okv, v[:100], witness=r.witness(), node=cfh.node)
        extra = [x for x in _mutations(r, C or "?") if not (x[0] == "store" and destruct(x[1] or "")[1] in ("scheme", "host", "port")) and x[0] != "update"]
        ctx.ob(R2, cfh.qual, "no other mutation of the request context", not extra, str(extra)[:150], witness=r.witness(), node=cfh.node)


def _const_tuple(t):
    op, a = destruct(t)
    if op == "const" and isinstance(a, (tuple, list, frozenset, set)):
        return tuple(a)
    if op == "tuple":
        return tuple(destruct(x)[1] for x in a if destruct(x)[0] == "const")
    return ()


def r2_pool_key_site(ctx, R2, R6):
    """connection_from_pool_key: lookup and insertion under the computed key; _new_pool fed from the keyed context."""
    m = ctx.model
    cfk = m.func(f"{MGR}.connection_from_pool_key")
    KEY, RC = f"p:{cfk.params()[0]}", f"p:{cfk.params()[1]}"

    class R(GenRule):
        def with_stmt(self, it, stmt, st):
            return it.exec_block(stmt.body, [st])  # the lock discipline is C17-R6

    inl = set(helper_closure(m, [cfk], stop=("_new_pool",))) - {cfk.qual}
    rows = [r for r in effect_rows(ctx, cfk, R(ctx, cfk.module, inline=inl, quiet=("log.debug",), events=lambda t, n: "cache_get" if t in ("self.pools.get",) else None), MGR) if r.returns]
    ctx.sites(R2, len(rows), 2, "returning rows of connection_from_pool_key")
    n_np = n_acc = 0
    seen = set()
    for r in rows:
        nps = [_args(e) for e in r.events("call") if e[1] == "self._new_pool"]
        gets = [[a for a in e[1:] if isinstance(a, str)] for e in r.events("cache_get")]
        # the same lookup spelt pools[key] (with KeyError handled) or `key in pools`
        texts = [r.out] + [k_ for k_ in r.st.facts if isinstance(k_, str)]
        for t_ in texts:
            for x_ in set(subterms(t_.split(":", 1)[-1] if t_.startswith(("return:", "raise:")) else t_)):
                o_, a_ = destruct(x_)
                if o_ in ("idx", "get") and len(a_) >= 2 and a_[0] == "self.pools" and [a_[1]] not in gets:
                    gets.append([a_[1]])
        for k_ in r.st.ts:
            if isinstance(k_, tuple) and len(k_) == 4 and k_[0] == "cmp" and k_[2] == "in" and k_[3] == "self.pools" and [k_[1]] not in gets:
                gets.append([k_[1]])
        sets = [(e[2], e[3]) for e in r.events("setitem") if e[1] == "self.pools"]
        k_ = (tuple(map(tuple, nps)), tuple(map(tuple, gets)), tuple(sets))
        if k_ in seen:
            continue
        seen.add(k_)
        for a in nps:
            n_np += 1
            pos, kw = _pos(a), _kw(a)
            got = {nm: kw.get(nm, pos[i] if i < len(pos) else None) for i, nm in enumerate(("scheme", "host", "port"))}
            okc = kw.get("request_context", pos[3] if len(pos) > 3 else None) == RC
            ctx.ob(R2, cfk.qual, "_new_pool receives the keyed context", okc, str(a)[:120], witness=r.witness(), node=cfk.node)
            for nm in ("scheme", "host", "port"):
                ok = got[nm] in (T("idx", RC, K(nm)), T("get", RC, K(nm)))
                ctx.ob(R2, cfk.qual, f"_new_pool {nm} comes from the keyed context", ok, str(got[nm]), witness=r.witness(), node=cfk.node)
        for a in gets:
            n_acc += 1
            ctx.ob(R6, cfk.qual, "lookup uses the computed key", a[:1] == [KEY], str(a), witness=r.witness(), node=cfk.node)
        for key, val in sets:
            n_acc += 1
            okv = destruct(val)[0] == "self._new_pool"
            ctx.ob(R6, cfk.qual, "insertion uses the computed key and the pool just created", key == KEY and okv, f"pools[{key}] = {val[:60]}", witness=r.witness(), node=cfk.node)
    ctx.sites(R2, n_np, 1, "_new_pool calls on rows of connection_from_pool_key")
    ctx.sites(R6, n_acc, 2, "cache accesses on rows")


def r4_normaliser(ctx, R4, R1):
    m = ctx.model
    norm = m.func(f"{PM}._default_key_normalizer")
    KC, RC = (f"p:{p}" for p in norm.params())
    rows = [r for r in rows_of(ctx, norm) if r.returns]
    ctx.sites(R4, len(rows), 4, "returning rows of the key normaliser")
    copies = {T("copy", RC), T("dict", RC)}
    unfiltered, why = True, []
    lowered, frozen, tupled, dflt = {}, {}, None, None
    for r in rows:
        op, a = destruct(r.ret or "")
        C = next((c for c in copies if f"**={c}" in a), None)
        if not (op == "call" and a[:1] == (KC,) and C is not None and len(a) == 2):
            unfiltered = False
            why.append(f"returns {(r.ret or '')[:80]}")
            continue
        for kind, key, val, loop in _mutations(r, C):
            if kind == "store":
                kop, kv = destruct(key or "")
                if kop == "const" and kv in ("scheme", "host"):
                    lowered[kv] = lowered.get(kv, True) and val == T("lower", T("idx", C, key))
                elif kop == "const" and kv == "socket_options":
                    ok_ = val in (T("tuple", T("get", C, key)), T("tuple", T("idx", C, key)))
                    tupled = ok_ if tupled is None else (tupled and ok_)
                elif kop == "each" and _const_tuple(kv[0]):
                    by_items = val in (T("frozenset", T("items", T("idx", C, key))), T("frozenset", T("items", T("get", C, key))))
                    for name in _const_tuple(kv[0]):
                        frozen[name] = frozen.get(name, True) and by_items
                elif kop == "const" and isinstance(kv, str) and destruct(val or "")[0] == "frozenset":
                    frozen[kv] = frozen.get(kv, True) and val in (T("frozenset", T("items", T("idx", C, key))), T("frozenset", T("items", T("get", C, key))))
                elif key == T("each", f"{KC}._fields"):
                    ok_ = val == "None" and r.cmp(key, "in", C) is False
                    dflt = ok_ if dflt is None else (dflt and ok_)
                elif destruct(key or "")[0] == "add" and destruct(key)[1][:1] == (K("key_"),):
                    src = destruct(key)[1][1]
                    if val != T(f"{C}.pop", src):
                        unfiltered = False
                        why.append(f"rename stores {val[:60]} under {key[:40]}")
                elif kop == "const" and isinstance(kv, str) and kv.startswith("key_") and destruct(val or "")[0] == "const":
                    pass  # default for a missing key field (key_blocksize)
                else:
                    unfiltered = False
                    why.append(f"store {key[:50]} = {str(val)[:50]}")
            elif kind == "setdefault":
                ok_ = key == T("each", f"{KC}._fields") and val == ("None",)
                dflt = ok_ if dflt is None else (dflt and ok_)
                if not ok_:
                    unfiltered = False
                    why.append(f"setdefault {key}")
            elif kind == "pop":
                # only as the source of the rename
                renames = [x for x in _mutations(r, C) if x[0] == "store" and x[2] == T(f"{C}.pop", key)]
                if not renames:
                    unfiltered = False
                    why.append(f"drops {key}")
            elif kind in ("del", "popitem", "clear"):
                unfiltered = False
                why.append(f"{kind} {key}")
    ctx.ob(R1, norm.qual, "key_class(**context) unfiltered", unfiltered, "; ".join(sorted(set(why)))[:300], node=norm.node)
    for nm in ("scheme", "host"):
        ctx.ob(R4, norm.qual, f"{nm} lower-cased", lowered.get(nm, False), "" if lowered.get(nm) else f"no context[{nm!r}] = context[{nm!r}].lower() on the copy")
    for nm in ("headers", "_proxy_headers", "_socks_options"):
        ctx.ob(R4, norm.qual, f"{nm} frozen by value (items())", frozen.get(nm, False),
               "" if frozen.get(nm) else "mapping field is not frozen as frozenset(mapping.items()): values would not take part in the key")
    ctx.ob(R4, norm.qual, "socket_options frozen as tuple", bool(tupled))
    ctx.ob(R4, norm.qual, "missing fields default to None (only when absent)", bool(dflt))
    return unfiltered


def r7_proxy_context(ctx, R7):
    m = ctx.model
    pxi = m.func(f"{PM}.ProxyManager.__init__")
    kwname = pxi.node.args.kwarg.arg if pxi.node.args.kwarg else None
    if not kwname:
        raise AnalysisError("ProxyManager.__init__ has no **kw")
    KW = f"p:**{kwname}"
    rows = [r for r in rows_of(ctx, pxi, cls=f"{PM}.ProxyManager") if r.returns]
    ctx.sites(R7, len(rows), 1, "returning rows of ProxyManager.__init__")
    seen = set()
    n_sup = n_pc = 0
    for r in rows:
        evs = list(r.ev)
        sup_i = [i for i, e in enumerate(evs) if e[0] == "call" and e[1] == "super.__init__"]
        stores = {}
        fields = {}
        for i, e in enumerate(evs):
            if e[0] == "setitem" and e[1] == KW and destruct(e[2])[0] == "const":
                stores[destruct(e[2])[1]] = (e[3], i)
            if e[0] == "call" and e[1] == f"{KW}.update":
                for k2, v2 in _kw(_args(e)).items():  # kw.update(a=x, b=y) is kw["a"] = x; kw["b"] = y
                    stores[k2] = (v2, i)
            if e[0] == "store" and e[1] == "self":
                fields[e[2]] = e[3]
        pcs = [x for x in subterms(fields.get("proxy_config", "")) if destruct(x)[0] == "new:ProxyConfig"]
        k_ = (tuple(sorted((k, v[0]) for k, v in stores.items())), tuple(pcs), len(sup_i))
        if k_ in seen:
            continue
        seen.add(k_)
        n_sup += len(sup_i)
        for nm, attr in (("_proxy", "proxy"), ("_proxy_headers", "proxy_headers"), ("_proxy_config", "proxy_config")):
            v = stores.get(nm)
            if v is None and sup_i:
                # the interpreter tracked the store into **kw itself: the entry then shows among the keyword arguments of the super call
                skw = _kw(_args(evs[sup_i[0]]))
                if nm in skw and f"**={KW}" in _args(evs[sup_i[0]]):
                    v = (skw[nm], -1)
            # the field is written earlier on the path, so reading it back yields the stored value
            ok = v is not None and v[0] in (f"self.{attr}", fields.get(attr)) and bool(sup_i) and v[1] < sup_i[0]
            ctx.ob(R7, pxi.qual, f"context[{nm!r}] = self.{attr} before super().__init__", ok, (v[0][:80] if v else "missing"), witness=r.witness(), node=pxi.node)
        oks = bool(sup_i) and f"**={KW}" in _args(evs[sup_i[0]])
        ctx.ob(R7, pxi.qual, "the augmented dict is what the base constructor stores", oks, str(_args(evs[sup_i[0]]))[:120] if sup_i else "", witness=r.witness(), node=pxi.node)
        want = {"p:proxy_ssl_context", "p:use_forwarding_for_https", "p:proxy_assert_hostname", "p:proxy_assert_fingerprint"}
        for pc in pcs:
            n_pc += 1
            got = _atoms(pc)
            ctx.ob(R7, pxi.qual, "ProxyConfig built from all four proxy TLS options", want <= got, f"missing {sorted(want - got)}", witness=r.witness(), node=pxi.node)
    ctx.sites(R7, n_sup, 1, "super().__init__ calls on rows")
    ctx.sites(R7, n_pc, 1, "ProxyConfig constructions on rows")
