"""C19 - socket waits never exceed the configured timeouts (structural clauses)."""
from __future__ import annotations

import ast

from .. import astq
from ..events import EventRule, before, evs, outcome_name, run_function
from ..interp import AV, BASE_TOP, EXT_TOP, UNK, BaseRule, Out, const, exc
from ..model import AnalysisError

TO = "urllib3.util.timeout"
TIMEOUT = f"{TO}.Timeout"
CP = "urllib3.connectionpool"
CN = "urllib3.connection"
POOL = f"{CP}.HTTPConnectionPool"


def _minmax_terms(e):
    """('max'|'min', [args]) recursively flattened as nested tuples for shape checks."""
    if isinstance(e, ast.Call) and astq.call_text(e) in ("max", "min") and not e.keywords:
        return (astq.call_text(e), [_minmax_terms(a) for a in e.args])
    return astq.text(e)


def run(ctx):
    m, fold = ctx.model, ctx.fold
    ctx.assume("A1")
    ctx.decline("the arithmetic over elapsed time (that total - elapsed is computed exactly); decided instead: a fresh clock per request, validation on construction, the min/max shape of both computations, the order in which timeouts are applied around the I/O steps")

    # ------------------------------------------------------------------ R1 fresh clock per request
    R1 = ctx.rule("C19-R1", "one request's clock never influences another's: every Timeout returned by _get_timeout is a clone()/from_float() result, and clone() does not copy the start stamp", "E6")
    gt = m.method(POOL, "_get_timeout")
    rets = [r for r in astq.walk_fn(gt.node) if isinstance(r, ast.Return)]
    ctx.sites(R1, len(rets), 3, "returns of _get_timeout")
    for r in rets:
        v = r.value
        ok = isinstance(v, ast.Call) and ((isinstance(v.func, ast.Attribute) and v.func.attr == "clone") or astq.call_text(v) == "Timeout.from_float")
        ctx.ob(R1, gt.qual, f"`{astq.text(r)}` is a fresh Timeout", ok, "" if ok else "the pool's (or the caller's) Timeout object is shared between requests: its start stamp carries over", node=r)
    cl = m.method(TIMEOUT, "clone")
    rets = [r for r in astq.walk_fn(cl.node) if isinstance(r, ast.Return)]
    ok = len(rets) == 1 and isinstance(rets[0].value, ast.Call) and astq.call_text(rets[0].value) == "Timeout"
    kws = {k.arg: astq.text(k.value) for k in rets[0].value.keywords} if ok else {}
    ok = ok and kws == {"connect": "self._connect", "read": "self._read", "total": "self.total"}
    ctx.ob(R1, cl.qual, f"clone() == Timeout(connect, read, total) of the same values: {kws}", ok, "" if ok else "a clone differs from its source, or is not a new object")
    init = m.method(TIMEOUT, "__init__")
    st_ = [n for n in astq.walk_fn(init.node) if isinstance(n, (ast.Assign, ast.AnnAssign)) and astq.text(n.targets[0] if isinstance(n, ast.Assign) else n.target) == "self._start_connect"]
    ok = bool(st_) and isinstance(st_[0].value, ast.Constant) and st_[0].value.value is None
    ctx.ob(R1, init.qual, "a new Timeout has no start stamp", ok)
    writers = [(n_, a) for n_, f in m.cls(TIMEOUT).methods.items() for a, _ in astq.self_stores(f.node) if a == "_start_connect" and n_ not in ("__init__",)]
    ctx.ob(R1, TIMEOUT, f"only start_connect sets the start stamp ({[w[0] for w in writers]})", [w[0] for w in writers] == ["start_connect"])
    ff = m.method(TIMEOUT, "from_float")
    ok = "return Timeout(read=timeout, connect=timeout)" in astq.text(ff.node)
    ctx.ob(R1, ff.qual, "from_float builds a new Timeout(read=t, connect=t)", ok)

    # ------------------------------------------------------------------ R2 validation
    R2 = ctx.rule("C19-R2", "invalid values are rejected when the Timeout is built: each constructor field is stored only after _validate_timeout, which rejects booleans before the numeric tests, non-numbers, and values <= 0", "E6 + E5")
    for fld, par in (("_connect", "connect"), ("_read", "read"), ("total", "total")):
        st_ = [n for n in astq.walk_fn(init.node) if isinstance(n, ast.Assign) and astq.text(n.targets[0]) == f"self.{fld}"]
        ok = len(st_) == 1 and isinstance(st_[0].value, ast.Call) and astq.call_text(st_[0].value) == "self._validate_timeout" and astq.text(st_[0].value.args[0]) == par
        ctx.ob(R2, init.qual, f"self.{fld} = _validate_timeout({par}, ...)", ok, "" if ok else "a timeout field is stored unvalidated")
    others = [(n_, a) for n_, f in m.cls(TIMEOUT).methods.items() if n_ != "__init__" for a, _ in astq.self_stores(f.node) if a in ("_connect", "_read", "total")]
    ctx.ob(R2, TIMEOUT, "the three fields are only set by the constructor", not others, str(others))
    vt = m.method(TIMEOUT, "_validate_timeout")

    class VR(BaseRule):
        def call(self, it, st, node, recv, pos, kw):
            t = ast.unparse(node.func)
            if t == "float":
                s = st.copy()
                s.ts["ev"] = s.ts.get("ev", ()) + ("float",)
                return [Out("normal", s, UNK), Out("raise", s.copy(), exc("builtins.TypeError")), Out("raise", s.copy(), exc("builtins.ValueError"))]
            q = it.resolve_callee(node, recv)
            if q and it.m.is_exception_class(q):
                return [Out("normal", st, AV("exc", it.m.norm(q), truth=True, none=False))]
            return [Out("normal", st, UNK)]

        def compare(self, it, st, node, a, b):
            if len(node.ops) == 1 and isinstance(node.ops[0], (ast.LtE, ast.Lt)) and a.sym == "p:value":
                st.ts["ev"] = st.ts.get("ev", ()) + ("cmp<=0" if isinstance(node.ops[0], ast.LtE) else "cmp<0",)
            return None

        def isinstance(self, it, st, node, av, classes):
            if classes == ["builtins.bool"]:
                st.ts["ev"] = st.ts.get("ev", ()) + ("isbool",)
            return None

        def global_value(self, it, name):
            if name == "_DEFAULT_TIMEOUT":
                return AV("const", ("enum", "_DEFAULT_TIMEOUT"), truth=True, none=False)
            return None

    outs, it = run_function(m, vt, VR(), TIMEOUT, record_decisions=True)
    seen = set()
    for o in outs:
        if o.kind == "raise" and o.val.val in (EXT_TOP.val, BASE_TOP.val):
            continue
        isbool = o.st.ts.get(("isinst", "p:value", ("builtins.bool",)))
        none = o.st.facts.get("p:value", (None, None))[1]
        le0 = o.st.ts.get(("cmp", "p:value", "<=", "0"))
        ev = o.st.ts.get("ev", ())
        key = (none, isbool, le0, outcome_name(o), "float" in ev)
        if key in seen:
            continue
        seen.add(key)
        name = outcome_name(o)
        if isbool is True:
            ok = name == "raise:ValueError" and "float" not in ev
            ctx.ob(R2, vt.qual, f"bool -> {name} before any numeric test", ok, "" if ok else "True/False pass as 1/0 seconds", witness=o.st.witness(), node=vt.node)
        elif le0 is True:
            ok = name == "raise:ValueError"
            ctx.ob(R2, vt.qual, f"value <= 0 -> {name}", ok, "" if ok else "zero or negative timeouts are accepted", witness=o.st.witness(), node=vt.node)
        elif o.kind == "return":
            v = o.st.view(o.val)
            okv = v.sym == "p:value"
            if none is True or o.st.ts.get(("cmp", "p:value", "is", "('enum', '_DEFAULT_TIMEOUT')")) is True:
                ctx.ob(R2, vt.qual, "None / default sentinel pass through unchanged", okv, witness=o.st.witness(), node=vt.node)
            else:
                ok = okv and le0 is False and isbool is False and "float" in ev
                ctx.ob(R2, vt.qual, f"accepted value: not bool, float()-convertible, > 0 (tests on path: bool={isbool}, <=0:{le0}, float={'float' in ev})", ok,
                       "" if ok else "a value is accepted without having passed all three tests", witness=o.st.witness(), node=vt.node)
        elif name in ("raise:ValueError",):
            ctx.ob(R2, vt.qual, f"non-number -> {name}", True)
        else:
            ctx.ob(R2, vt.qual, f"outcome {name}", False, "an invalid timeout surfaces as something other than ValueError", witness=o.st.witness(), node=vt.node)
    ctx.sites(R2, len(seen), 5, "rows of _validate_timeout")
    cmps = [n for n in astq.walk_fn(vt.node) if isinstance(n, ast.Compare) and astq.text(n.left) == "value" and isinstance(n.ops[0], (ast.Lt, ast.LtE))]
    ok = bool(cmps) and all(isinstance(c.ops[0], ast.LtE) and astq.text(c.comparators[0]) == "0" for c in cmps)
    ctx.ob(R2, vt.qual, "the positivity test is `value <= 0` (zero is rejected)", ok)

    # ------------------------------------------------------------------ R3 shapes
    R3 = ctx.rule("C19-R3", "connect_timeout returns connect, total, or min(connect, total); every numeric read_timeout computed with a total is max(0, e) with e bounded by total - elapsed and, when read is set, by read", "E5 + min/max algebra")
    ctp = m.cls(TIMEOUT).methods.get("connect_timeout")
    rtp = m.cls(TIMEOUT).methods.get("read_timeout")
    if ctp is None or rtp is None:
        raise AnalysisError("connect_timeout / read_timeout properties not found")
    rets = sorted([r for r in astq.walk_fn(ctp.node) if isinstance(r, ast.Return)], key=lambda r: r.lineno)
    texts = [astq.text(r.value) for r in rets]
    ok = texts == ["self._connect", "self.total", "min(self._connect, self.total)"]
    ctx.ob(R3, ctp.qual, f"returns {texts}", ok, "" if ok else "the connect phase may wait longer than min(connect, total)")
    guards = [astq.text(astq.enclosing(r, ast.If).test) if astq.enclosing(r, ast.If) is not None else None for r in rets]
    ok = guards[:2] == ["self.total is None", "self._connect is None or self._connect is _DEFAULT_TIMEOUT"]
    ctx.ob(R3, ctp.qual, f"guards {guards[:2]}", ok)
    rets = sorted([r for r in astq.walk_fn(rtp.node) if isinstance(r, ast.Return)], key=lambda r: r.lineno)
    n3 = 0
    for r in rets:
        shape = _minmax_terms(r.value)
        g = astq.enclosing(r, ast.If)
        gt_ = astq.text(g.test) if g is not None else ""
        if "self.total" not in astq.text(r.value):
            continue
        n3 += 1
        elapsed = "self.total - self.get_connect_duration()"
        if "self._read" in astq.text(r.value):
            ok = shape == ("max", ["0", ("min", [elapsed, "self._read"])]) or shape == ("max", ["0", ("min", ["self._read", elapsed])])
        else:
            ok = shape == ("max", ["0", elapsed])
        ctx.ob(R3, rtp.qual, f"`{astq.text(r)}`", ok, "" if ok else "the response wait is not clamped to [0, min(read, total - elapsed)]", node=r)
    ctx.sites(R3, n3, 2, "read_timeout returns involving total")
    # the branch using total-and-read is selected exactly when both are set
    ifs = [n for n in astq.walk_fn(rtp.node) if isinstance(n, ast.If) and "self.total is not None" in astq.text(n.test)]
    ok = len(ifs) >= 2 and "self._read is not None" in astq.text(ifs[0].test) and "self._read is not _DEFAULT_TIMEOUT" in astq.text(ifs[0].test)
    ctx.ob(R3, rtp.qual, "total-and-read branch requires both to be set; total-only branch follows", ok)
    gd = m.method(TIMEOUT, "get_connect_duration")
    ok = "return time.monotonic() - self._start_connect" in astq.text(gd.node)
    ctx.ob(R3, gd.qual, "elapsed = monotonic() - start stamp", ok)

    # ------------------------------------------------------------------ R4 order in _make_request
    R4 = ctx.rule("C19-R4", "order in _make_request: clock started, then the connect timeout applied to the connection, then validation/connect and the request; the read timeout is computed after the request was sent; a zero budget raises ReadTimeoutError and the read timeout is applied before getresponse()", "E3 via E4")
    mr = m.method(POOL, "_make_request")

    class MR(BaseRule):
        def call(self, it, st, node, recv, pos, kw):
            t = ast.unparse(node.func)
            ev_name = None
            f_ = node.func
            if isinstance(f_, ast.Attribute) and recv is not None and recv.kind == "obj":
                ev_name = {("timeout_obj", "start_connect"): "start", ("conn", "request"): "request", ("conn", "getresponse"): "getresponse"}.get((recv.val, f_.attr))
            if t == "self._validate_conn":
                ev_name = "validate"
            if ev_name:
                s = st.copy()
                s.ts["ev"] = s.ts.get("ev", ()) + (ev_name,)
                return [Out("normal", s, UNK)]
            if t == "self._get_timeout":
                return [Out("normal", st, AV("obj", "timeout_obj", truth=True, none=False))]
            if t == "Timeout.resolve_default_timeout":
                return [Out("normal", st, AV("unk", tags=frozenset(pos[0].tags | {"resolved"}) if pos else frozenset()))]
            q = it.resolve_callee(node, recv)
            if q and it.m.is_exception_class(q):
                return [Out("normal", st, AV("exc", it.m.norm(q), truth=True, none=False))]
            return [Out("normal", st, UNK)]

        def getattr(self, it, st, node, base):
            if base.kind == "obj" and base.val == "timeout_obj" and node.attr in ("connect_timeout", "read_timeout"):
                st.ts["ev"] = st.ts.get("ev", ()) + (f"read:{node.attr}",)
                return AV("unk", sym=node.attr, tags=frozenset({node.attr}))
            return None

        def setattr(self, it, st, target, base, av):
            if isinstance(target, ast.Attribute) and target.attr == "timeout" and base is not None and base.kind == "obj" and base.val == "conn":
                st.ts["ev"] = st.ts.get("ev", ()) + ("set-conn-timeout:" + ",".join(sorted(t for t in av.tags if t in ("connect_timeout", "read_timeout"))),)

    outs, it = run_function(m, mr, MR(), POOL, params={"conn": AV("obj", "conn", truth=True, none=False)}, record_decisions=True)
    ctx.states += it.budget.steps
    seen = set()
    for o in outs:
        seq = evs(o)
        if seq in seen:
            continue
        seen.add(seq)
        name = outcome_name(o)

        def idx(x):
            return seq.index(x) if x in seq else None

        checks = []
        if idx("validate") is not None:
            checks.append(("clock started before validation/connect", idx("start") is not None and idx("start") < idx("validate")))
            sct = idx("set-conn-timeout:connect_timeout")
            checks.append(("connect timeout applied before validation/connect", sct is not None and idx("start") is not None and sct < idx("validate") and idx("start") < sct))
        if idx("request") is not None:
            checks.append(("validation precedes the request", idx("validate") is not None and idx("validate") < idx("request")))
        if idx("getresponse") is not None:
            rrs = [i for i, e in enumerate(seq) if e == "read:read_timeout" and i < idx("getresponse")]
            rr = rrs[-1] if rrs else None
            checks.append(("read timeout (last) computed after the request was sent", rr is not None and idx("request") is not None and rr > idx("request")))
            closed = o.st.facts.get("field:conn.is_closed", (None, None))[0]
            srt = idx("set-conn-timeout:read_timeout")
            if closed is not True:
                checks.append(("read timeout applied to the connection before getresponse()", srt is not None and srt < idx("getresponse")))
                checks.append(("a zero read budget never reaches getresponse()", o.st.ts.get(("cmp", "read_timeout", "==", "0")) is False))
        for what, ok in checks:
            ctx.ob(R4, mr.qual, f"[{name}] {what}", ok, "" if ok else f"events {seq}", witness=o.st.witness(), node=mr.node)
    zero = [o for o in outs if o.st.ts.get(("cmp", "read_timeout", "==", "0")) is True]
    ok = bool(zero) and all(o.kind == "raise" and o.val.val.endswith("ReadTimeoutError") and "getresponse" not in evs(o) for o in zero)
    ctx.ob(R4, mr.qual, "read budget == 0 raises ReadTimeoutError without waiting", ok, "" if ok else "an exhausted total still waits on the socket (timeout 0 means non-blocking/forever depending on platform)")
    ctx.sites(R4, len(seen), 3, "event sequences of _make_request")
    # every connect() reachable on the request path happens under a started clock
    uo = m.method(POOL, "urlopen")
    pp = [c for c in astq.calls(uo.node) if astq.call_text(c) == "self._prepare_proxy"]
    mrc = [c for c in astq.calls(uo.node) if astq.call_text(c) == "self._make_request"]
    started_before = [c for c in astq.calls(uo.node) if astq.call_text(c).endswith(".start_connect") and pp and c.lineno < pp[0].lineno]
    for c in pp:
        ok = bool(started_before)
        ctx.ob(R4, uo.qual, "tunnel set-up (_prepare_proxy -> connect) runs under the request's started clock", ok,
               "" if ok else "the CONNECT/TLS set-up through a proxy happens before _make_request starts the request's clock (on a fresh clone): its duration is not deducted from `total`, so the response wait can exceed total - time already spent connecting", node=c)
        conn_names = set(astq.assigned_from(uo.node, lambda v: isinstance(v, ast.Call) and astq.call_text(v) == "self._get_conn"))
        prev = [n for n in astq.walk_fn(uo.node) if isinstance(n, ast.Assign) and isinstance(n.targets[0], ast.Attribute) and n.targets[0].attr == "timeout"
                and astq.text(n.targets[0].value) in conn_names and n.lineno < c.lineno]
        okc = bool(prev) and "connect_timeout" in astq.text(prev[-1].value)
        ctx.ob(R4, uo.qual, "the connect timeout is applied to the connection before the tunnel set-up", okc, node=c)

    # ------------------------------------------------------------------ R5 socket application
    R5 = ctx.rule("C19-R5", "the connection's timeout is applied to the socket before sending and before waiting for the response", "E3")
    for name in ("request", "getresponse"):
        fi = m.method(f"{CN}.HTTPConnection", name)
        sts = [c for c in astq.calls(fi.node) if astq.call_text(c) == "self.sock.settimeout"]
        deleg = [c for c in astq.calls(fi.node) if astq.call_text(c) in ("super().getresponse", "self.putrequest")]
        ok = bool(sts) and astq.text(sts[0].args[0]) == "self.timeout" and bool(deleg) and sts[0].lineno < deleg[0].lineno
        ctx.ob(R5, fi.qual, "sock.settimeout(self.timeout) precedes the I/O", ok, "" if ok else "a reused connection keeps the previous request's socket timeout")
    nc = m.method(f"{CN}.HTTPConnection", "_new_conn")
    cc = [c for c in astq.calls(nc.node) if astq.call_text(c) == "connection.create_connection"]
    ok = bool(cc) and len(cc[0].args) > 1 and astq.text(cc[0].args[1]) == "self.timeout"
    ctx.ob(R5, nc.qual, "the connect uses the connection's timeout", ok)

    # ------------------------------------------------------------------ R6 request overrides pool
    R6 = ctx.rule("C19-R6", "a request-level timeout fully overrides the pool's: the pool's Timeout is used only for the default sentinel", "E5 on _get_timeout")
    ifs = [n for n in astq.walk_fn(gt.node) if isinstance(n, ast.If)]
    first = sorted(ifs, key=lambda n: n.lineno)[0] if ifs else None
    ok = first is not None and astq.text(first.test) == "timeout is _DEFAULT_TIMEOUT" and any("self.timeout.clone()" in astq.text(s) for s in first.body)
    ctx.ob(R6, gt.qual, "pool default only when the request passed the sentinel", ok)
    uses_pool = [n for n in astq.walk_fn(gt.node) if isinstance(n, ast.Attribute) and astq.text(n) == "self.timeout"]
    ctx.ob(R6, gt.qual, "self.timeout is read exactly once", len(uses_pool) == 1)
    ok = any(astq.text(astq.norm_if(n)[0]) == "isinstance(timeout, Timeout)" and any("timeout.clone()" in astq.text(s) for s in astq.norm_if(n)[1])
             and any("Timeout.from_float(timeout)" in astq.text(s) for s in astq.norm_if(n)[2]) for n in ifs)
    ctx.ob(R6, gt.qual, "a Timeout is cloned, a number converted with from_float", ok)

    # ------------------------------------------------------------------ R7 timeout mapping
    R7 = ctx.rule("C19-R7", "socket timeouts surface as ReadTimeoutError: socket.timeout and EAGAIN/EWOULDBLOCK map to ReadTimeoutError", "E5 on _raise_timeout")
    rt = m.method(POOL, "_raise_timeout")
    ifs = [n for n in astq.walk_fn(rt.node) if isinstance(n, ast.If)]
    ctx.sites(R7, len(ifs), 2, "branches of _raise_timeout")
    kinds = {}
    for n in ifs:
        ok = astq.all_paths_end_in(n.body, lambda s: isinstance(s, ast.Raise) and "ReadTimeoutError" in astq.text(s.exc))
        kinds[astq.text(n.test)] = ok
    ok = kinds.get("isinstance(err, SocketTimeout)") is True
    ctx.ob(R7, rt.qual, "socket.timeout -> ReadTimeoutError", ok)
    ok = any(k.replace('"', "'") == "hasattr(err, 'errno') and err.errno in _blocking_errnos" and v for k, v in kinds.items())
    ctx.ob(R7, rt.qual, "EAGAIN/EWOULDBLOCK -> ReadTimeoutError", ok)
    be = m.assigns.get(CP, {}).get("_blocking_errnos")
    ok = bool(be) and astq.text(be[-1].value) in ("{errno.EAGAIN, errno.EWOULDBLOCK}", "{errno.EWOULDBLOCK, errno.EAGAIN}")
    ctx.ob(R7, CP, "_blocking_errnos == {EAGAIN, EWOULDBLOCK}", ok)
    # callers: the read-side handler in _make_request passes the read timeout
    calls_ = [c for c in astq.calls(mr.node) if astq.call_text(c) == "self._raise_timeout"]
    ctx.ob(R7, mr.qual, "getresponse() errors are passed to _raise_timeout with the read timeout",
           any(astq.kwarg(c, "timeout_value") is not None and any(isinstance(x, ast.Attribute) and x.attr == "read_timeout" for x in astq.sources_of(mr.node, astq.kwarg(c, "timeout_value"))) for c in calls_))
