"""C19 - socket waits never exceed the configured timeouts (structural clauses).

All clauses are decided on effect rows: the functions are interpreted with Herbrand terms (sa/terms.py); a row is the
set of decisions taken on symbolic atoms plus the returned term / the ordered events.  Nothing keys on local names,
temporaries, the order of independent tests, or whether a step lives in a helper method (helpers that reach a rule
event are inlined)."""
from __future__ import annotations

import ast

from .. import astq
from ..events import evs, outcome_name, run_function
from ..interp import AV, BASE_TOP, EXT_TOP, UNK, BaseRule, Out, const, exc
from ..model import AnalysisError
from ..rows import ARITH, helper_closure, within_vocabulary
from ..terms import T, TermRule, destruct, is_opaque, subterms, term_of, tv

TO = "urllib3.util.timeout"
TIMEOUT = f"{TO}.Timeout"
CP = "urllib3.connectionpool"
CN = "urllib3.connection"
POOL = f"{CP}.HTTPConnectionPool"
DEFAULT = AV("const", ("enum", "_DEFAULT_TIMEOUT"), truth=True, none=False)
DEFAULT_T = repr(DEFAULT.val)
# modelled (analysed on their own rows, kept as terms at their call sites)
STOP19 = ("_validate_timeout", "_get_timeout", "_raise_timeout", "_make_request", "_get_conn", "_put_conn", "_new_conn", "_prepare_proxy", "_validate_conn")


class TRule(TermRule):
    """Terms for the Timeout helpers: fields of self are atoms, self-method calls are terms (with declared raises)."""

    def __init__(self, raising=()):
        self.raising = dict(raising)  # "self.method" -> exception class it may raise

    def global_value(self, it, name):
        if name in ("_DEFAULT_TIMEOUT", "_GLOBAL_DEFAULT_TIMEOUT"):
            return DEFAULT
        if name.startswith("_") and name not in ("_TYPE_DEFAULT",):
            return tv(f"g:{name}", none=False)
        return None

    def getattr(self, it, st, node, base):
        if base.kind == "self":
            return tv(f"self.{node.attr}")
        if base.sym and base.sym.startswith("p:") and base.kind == "unk":
            return tv(f"{base.sym}.{node.attr}")
        return None

    def call_hook(self, it, st, node, recv, pos, kw):
        f = node.func
        text = ast.unparse(f)
        q0 = it.resolve_callee(node, recv)
        if q0 in it.inline:
            return None  # a private helper: interpreted in place
        pos, kw = self._canon_args(it, node, recv, q0, pos, kw)
        args = [term_of(p) for p in pos]
        kws = [f"{k}={term_of(v)}" for k, v in sorted(kw.items())]
        if isinstance(f, ast.Attribute) and recv is not None:
            if f.attr == "clone" and not pos:
                return [Out("normal", st, tv(T("clone", term_of(recv)), none=False, truth=True))]
            if recv.kind == "self" or text.startswith(("cls.", "Timeout.")):
                name = f"self.{f.attr}" if recv.kind == "self" else f"Timeout.{f.attr}"
                outs = [Out("normal", st, tv(T(name, *args, *kws)))]
                r = self.raising.get(f.attr)
                if r:
                    s2 = st.copy()
                    s2.log(node, f"{name} raises {r}")
                    outs.append(Out("raise", s2, exc(r)))
                return outs
        if text == "Timeout":
            # constructor: bind positionals to the public parameter order (total, connect, read)
            order = ["total", "connect", "read"]
            named = {k: term_of(v) for k, v in kw.items()}
            for n, a in zip(order, args):
                named.setdefault(n, a)
            return [Out("normal", st, tv(T("new:Timeout", *[f"{k}={named[k]}" for k in sorted(named)]), none=False, truth=True))]
        if text == "hasattr" and len(pos) == 2:
            return [Out("normal", st, tv(T("hasattr", *args)))]
        if text == "float" and pos:
            s = st.copy()
            s.ts["ev"] = s.ts.get("ev", ()) + ("float",)
            return [Out("normal", s, tv(T("float", *args), none=False)), Out("raise", s.copy(), exc("builtins.TypeError")), Out("raise", s.copy(), exc("builtins.ValueError"))]
        if text == "bool" and pos and pos[0].kind == "const":
            return [Out("normal", st, const(bool(pos[0].val)))]
        if text in ("time.monotonic", "getdefaulttimeout"):
            return [Out("normal", st, tv(T(text), none=False if text == "time.monotonic" else None))]
        q = it.resolve_callee(node, recv)
        if q and it.m.is_exception_class(q):
            return [Out("normal", st, AV("exc", it.m.norm(q), truth=True, none=False))]
        return None


def _rows(outs):
    return [o for o in outs if not (o.kind == "raise" and o.val.val in (EXT_TOP.val, BASE_TOP.val))]


def _norm(t):
    """min/max with sorted, flattened arguments; everything else structurally."""
    op, args = destruct(t)
    if op in ("min", "max") and len(args) == 1 and destruct(args[0])[0] in ("list", "tuple") and destruct(args[0])[1]:
        args = destruct(args[0])[1]  # min([a, b]) is min(a, b)
        if len(args) == 1:
            return _norm(args[0])
    if op in ("min", "max"):
        flat = []
        for a in args:
            na = _norm(a)
            o2, a2 = destruct(na)
            if o2 == op:
                flat += list(a2)
            else:
                flat.append(na)
        return T(op, *sorted(flat))
    if op is None or op == "const":
        return t
    return T(op, *[_norm(a) for a in args])


def _unset(o, sym):
    """True / False / None: is the field known to be None-or-default on this row?"""
    f = o.st.facts.get(sym, (None, None))
    is_none = f[1]
    is_def = o.st.ts.get(("cmp", sym, "is", DEFAULT_T))
    if is_none is True or is_def is True:
        return True
    if is_none is False and is_def is False:
        return False
    return None


def run(ctx):
    m, fold = ctx.model, ctx.fold
    ctx.assume("A1")
    ctx.decline("the arithmetic over elapsed time (that total - elapsed is computed exactly); decided instead: a fresh clock per request, validation on construction, the min/max shape of both computations, the order in which timeouts are applied around the I/O steps")
    tcls = m.cls(TIMEOUT)

    # ------------------------------------------------------------------ R1 fresh clock per request / R6 request overrides pool
    R1 = ctx.rule("C19-R1", "one request's clock never influences another's: every Timeout returned by _get_timeout is a clone()/from_float() result, and clone() does not copy the start stamp", "E10 effect rows")
    R6 = ctx.rule("C19-R6", "a request-level timeout fully overrides the pool's: the pool's Timeout is used only for the default sentinel", "E10 effect rows of _get_timeout")
    gt = m.method(POOL, "_get_timeout")
    pt = "p:" + gt.params()[0]
    outs, it = run_function(m, gt, TRule(), POOL, inline=frozenset(set(helper_closure(m, [gt], stop=STOP19)) - {gt.qual}))
    ctx.states += it.budget.steps
    rows = [o for o in _rows(outs) if o.kind == "return"]
    ctx.sites(R1, len(rows), 3, "returning rows of _get_timeout")
    seen = set()
    sentinel_rows = 0
    for o in rows:
        rt = term_of(o.val)
        is_to = None
        for k, v in o.st.ts.items():
            if isinstance(k, tuple) and k[0] == "isinst" and k[1] == pt and any("Timeout" in c for c in k[2]):
                is_to = v
        is_def = o.st.ts.get(("cmp", pt, "is", DEFAULT_T))
        key = (rt, is_to, is_def)
        if key in seen:
            continue
        seen.add(key)
        op, args = destruct(rt)
        fresh = (op == "clone") or (op == "Timeout.from_float")
        ctx.ob(R1, gt.qual, f"returns {rt}: a fresh Timeout", fresh,
               "" if fresh else "the pool's (or the caller's) Timeout object itself is handed to the request: its start stamp carries over to the next request", witness=o.st.witness(), node=gt.node)
        uses_pool = "self.timeout" in rt
        if uses_pool:
            sentinel_rows += 1
            ctx.ob(R6, gt.qual, "the pool's timeout is used only when the request passed the default sentinel", is_def is True,
                   "" if is_def is True else f"the pool's timeout is returned on a row where the request's value is not known to be the sentinel (decisions: is-Timeout={is_to}, is-sentinel={is_def})", witness=o.st.witness(), node=gt.node)
            ctx.ob(R6, gt.qual, "for the sentinel the pool's timeout is cloned", rt == T("clone", "self.timeout"), rt, witness=o.st.witness(), node=gt.node)
        else:
            ok = (is_to is True and rt == T("clone", pt)) or (is_to is False and rt == T("Timeout.from_float", pt)) or (is_to is None and rt in (T("clone", pt), T("Timeout.from_float", pt)))
            ctx.ob(R6, gt.qual, f"request value (is-Timeout={is_to}) -> {rt}", ok and is_def is not True,
                   "" if ok and is_def is not True else "a Timeout must be cloned, a number converted with from_float, and the sentinel must not be treated as a value", witness=o.st.witness(), node=gt.node)
    ctx.sites(R6, sentinel_rows, 1, "rows using the pool's timeout")
    cl = m.method(TIMEOUT, "clone")

    class StoreRule(TRule):
        def setattr(self, it, st, target, base, av):
            st.ts["ev"] = st.ts.get("ev", ()) + (("store", ast.unparse(target.value), target.attr, term_of(av)),)

    outs, it = run_function(m, cl, StoreRule(), TIMEOUT, inline=frozenset(set(helper_closure(m, [cl], stop=STOP19)) - {cl.qual}))
    crow = [o for o in _rows(outs) if o.kind == "return"]
    want = T("new:Timeout", "connect=self._connect", "read=self._read", "total=self.total")
    ok = bool(crow) and all(term_of(o.val) == want and not evs(o) for o in crow)
    ctx.ob(R1, cl.qual, "clone() == Timeout(connect, read, total) of the same values (a new object, no start stamp)", ok,
           "" if ok else f"clone returns {[term_of(o.val) for o in crow]}", node=cl.node)
    init = m.method(TIMEOUT, "__init__")
    st_ = [n for n in astq.walk_fn(init.node) if isinstance(n, (ast.Assign, ast.AnnAssign)) and astq.text(n.targets[0] if isinstance(n, ast.Assign) else n.target) == "self._start_connect"]
    ok = bool(st_) and isinstance(st_[0].value, ast.Constant) and st_[0].value.value is None
    ctx.ob(R1, init.qual, "a new Timeout has no start stamp", ok)
    writers = [(n_, x.attr) for n_, f in tcls.methods.items() for x in ast.walk(f.node)
               if isinstance(x, ast.Attribute) and isinstance(x.ctx, (ast.Store, ast.Del)) and x.attr == "_start_connect" and n_ not in ("__init__",)]
    ctx.ob(R1, TIMEOUT, f"only start_connect sets the start stamp ({[w[0] for w in writers]})", [w[0] for w in writers] == ["start_connect"])
    ff = m.method(TIMEOUT, "from_float")
    outs, it = run_function(m, ff, TRule(), TIMEOUT, inline=frozenset(set(helper_closure(m, [ff], stop=STOP19)) - {ff.qual}))
    frow = [o for o in _rows(outs) if o.kind == "return"]
    pf = "p:" + ff.params()[0]
    def _ff_ok(t_):
        o_, a_ = destruct(t_)
        if o_ != "new:Timeout":
            return False
        from ..rows import bind as _b
        b_ = _b(init.params(), list(a_))
        dflt = {k_: (repr(v_.value) if isinstance(v_, ast.Constant) else None) for k_, v_ in init.defaults().items()}
        rest = {k_: v_ for k_, v_ in b_.items() if k_ not in ("connect", "read") and dflt.get(k_) != v_}
        return b_.get("connect") == pf and b_.get("read") == pf and not rest
    ok = bool(frow) and all(_ff_ok(term_of(o.val)) for o in frow)
    ctx.ob(R1, ff.qual, "from_float builds a new Timeout(read=t, connect=t)", ok, "" if ok else str([term_of(o.val) for o in frow]))

    # ------------------------------------------------------------------ R2 validation
    R2 = ctx.rule("C19-R2", "invalid values are rejected when the Timeout is built: each constructor field is stored only after _validate_timeout, which rejects booleans before the numeric tests, non-numbers, and values <= 0", "E10 effect rows")

    class InitRule(TRule):
        def setattr(self, it, st, target, base, av):
            if isinstance(target.value, ast.Name) and target.value.id == "self":
                st.ts["ev"] = st.ts.get("ev", ()) + (("store", target.attr, term_of(av)),)

    outs, it = run_function(m, init, InitRule(), TIMEOUT, inline=frozenset(set(helper_closure(m, [init], stop=STOP19)) - {init.qual}))
    irows = [o for o in _rows(outs) if o.kind != "raise"]
    ctx.sites(R2, len(irows), 1, "normal rows of Timeout.__init__")
    for o in irows[:1]:
        stores = {e[1]: e[2] for e in evs(o) if e[0] == "store"}
        for fld, par in (("_connect", "connect"), ("_read", "read"), ("total", "total")):
            v = stores.get(fld, "")
            op, args = destruct(v)
            ok = op == "self._validate_timeout" and args[:1] == (f"p:{par}",)
            ctx.ob(R2, init.qual, f"self.{fld} = _validate_timeout({par}, ...)", ok, "" if ok else f"stored value {v or 'missing'}: a timeout field is stored unvalidated", node=init.node)
    others = [(n_, a) for n_, f in tcls.methods.items() if n_ != "__init__" for a, _ in astq.self_stores(f.node) if a in ("_connect", "_read", "total")]
    ctx.ob(R2, TIMEOUT, "the three fields are only set by the constructor", not others, str(others))
    vt = m.method(TIMEOUT, "_validate_timeout")
    pv = "p:" + vt.params()[0]
    outs, it = run_function(m, vt, TRule(), TIMEOUT, inline=frozenset(set(helper_closure(m, [vt], stop=STOP19)) - {vt.qual}))
    ctx.states += it.budget.steps
    seen = set()
    for o in _rows(outs):
        isbool = o.st.ts.get(("isinst", pv, ("builtins.bool",)))
        none = o.st.facts.get(pv, (None, None))[1]
        is_def = o.st.ts.get(("cmp", pv, "is", DEFAULT_T))
        le0 = o.st.ts.get(("cmp", pv, "<=", "0"))
        lt0 = o.st.ts.get(("cmp", pv, "<", "0"))
        ev = o.st.ts.get("ev", ())
        name = outcome_name(o) if o.kind != "return" else "return:" + term_of(o.val)
        key = (none, is_def, isbool, le0, lt0, name, "float" in ev)
        if key in seen:
            continue
        seen.add(key)
        if isbool is True:
            ok = name == "raise:ValueError" and "float" not in ev
            ctx.ob(R2, vt.qual, f"bool -> {name} before any numeric test", ok, "" if ok else "True/False pass as 1/0 seconds", witness=o.st.witness(), node=vt.node)
        elif le0 is True:
            ok = name == "raise:ValueError"
            ctx.ob(R2, vt.qual, f"value <= 0 -> {name}", ok, "" if ok else "zero or negative timeouts are accepted", witness=o.st.witness(), node=vt.node)
        elif o.kind == "return":
            okv = name == "return:" + pv
            if none is True or is_def is True:
                ctx.ob(R2, vt.qual, "None / default sentinel pass through unchanged", okv, name, witness=o.st.witness(), node=vt.node)
            else:
                ok = okv and le0 is False and isbool is False and "float" in ev
                # `value <= 0` being false does not make a number of it: NaN compares false with everything.  The accepting path
                # must hold a decision NaN cannot pass: `value > 0` true, `value != value` false / `value == value` true, or isnan() false
                nan_proof = o.st.ts.get(("cmp", pv, ">", "0")) is True or o.st.ts.get(("cmp", pv, "!=", pv)) is False or o.st.ts.get(("cmp", pv, "==", pv)) is True \
                    or any(isinstance(k_, str) and "isnan(" in k_ and pv in k_ and v_[0] is False for k_, v_ in o.st.facts.items())
                if ("nan", nan_proof) not in seen:
                    seen.add(("nan", nan_proof))
                    ctx.ob(R2, vt.qual, "an accepted value has passed a test that NaN fails (not-a-number is a non-number)", nan_proof,
                           "" if nan_proof else "`value <= 0` is false for float('nan'): Timeout(total=float('nan')) is built, read_timeout / min() arithmetic becomes order-dependent and the "
                           "first socket.settimeout(nan) raises a raw ValueError at request time instead of the Timeout being rejected when it is built", witness=o.st.witness(), node=vt.node)
                ctx.ob(R2, vt.qual, f"accepted value: not bool, float()-convertible, > 0 (tests on path: bool={isbool}, <=0:{le0}, float={'float' in ev})", ok,
                       "" if ok else ("zero is accepted: the positivity test must be `value <= 0`" if lt0 is False and le0 is None else "a value is accepted without having passed all three tests"), witness=o.st.witness(), node=vt.node)
        elif name in ("raise:ValueError",):
            ctx.ob(R2, vt.qual, f"non-number -> {name}", True)
        else:
            ctx.ob(R2, vt.qual, f"outcome {name}", False, "an invalid timeout surfaces as something other than ValueError", witness=o.st.witness(), node=vt.node)
    ctx.sites(R2, len(seen), 5, "rows of _validate_timeout")

    # ------------------------------------------------------------------ R3 shapes
    R3 = ctx.rule("C19-R3", "connect_timeout returns connect, total, or min(connect, total); every numeric read_timeout computed with a total is max(0, e) with e bounded by total - elapsed and, when read is set, by read", "E10 effect rows + min/max normal form")
    ctp = tcls.methods.get("connect_timeout")
    rtp = tcls.methods.get("read_timeout")
    if ctp is None or rtp is None:
        raise AnalysisError("connect_timeout / read_timeout properties not found")
    C, Tt, Rd = "self._connect", "self.total", "self._read"
    outs, it = run_function(m, ctp, TRule(), TIMEOUT, inline=frozenset(set(helper_closure(m, [ctp], stop=STOP19)) - {ctp.qual}))
    ctx.states += it.budget.steps
    seen = set()
    n = 0
    for o in _rows(outs):
        if o.kind != "return":
            continue
        rt = _norm(term_of(o.val))
        t_none = o.st.facts.get(Tt, (None, None))[1]
        c_unset = _unset(o, C)
        lt = o.st.ts.get(("cmp", Tt, "<", C))
        le = o.st.ts.get(("cmp", Tt, "<=", C))
        gt_ = o.st.ts.get(("cmp", C, "<", Tt))
        ge_ = o.st.ts.get(("cmp", C, "<=", Tt))
        key = (rt, t_none, c_unset, lt, le, gt_, ge_)
        if key in seen:
            continue
        seen.add(key)
        n += 1
        if t_none is True:
            ok, why = rt == C, "without a total the connect timeout is the configured connect value"
        elif t_none is False and c_unset is True:
            ok, why = rt == Tt, "without a connect value the connect phase is bounded by total"
        elif t_none is False and c_unset is False:
            total_le = lt is True or le is True or gt_ is False or ge_ is False  # row knows total <= connect (or total < connect)
            conn_le = lt is False or le is False or gt_ is True or ge_ is True    # row knows connect <= total
            ok = rt == _norm(T("min", C, Tt)) or (rt == Tt and total_le) or (rt == C and conn_le)
            why = "with both set the connect phase must get min(connect, total)"
        else:
            ok, why = False, f"a value is returned without deciding whether total / connect are set (total None={t_none}, connect unset={c_unset})"
        ctx.ob(R3, ctp.qual, f"connect_timeout -> {rt} [total None={t_none}, connect unset={c_unset}]", ok, "" if ok else why + ": the connect phase may wait longer than min(connect, total)", witness=o.st.witness(), node=ctp.node)
    ctx.sites(R3, n, 3, "rows of connect_timeout")
    outs, it = run_function(m, rtp, TRule(raising={"get_connect_duration": "urllib3.exceptions.TimeoutStateError"}), TIMEOUT, inline=frozenset(set(helper_closure(m, [rtp], stop=STOP19)) - {rtp.qual}))
    ctx.states += it.budget.steps
    E = T("sub", Tt, T("self.get_connect_duration"))
    seen = set()
    n = 0
    foreign_idiom = None
    for o in _rows(outs):
        if o.kind != "return":
            continue
        rt = _norm(term_of(o.val))
        t_unset, r_unset = _unset(o, Tt), _unset(o, Rd)
        started = o.st.facts.get("self._start_connect", (None, None))[1]
        key = (rt, t_unset, r_unset, started)
        if key in seen:
            continue
        seen.add(key)
        n += 1
        VOC = ARITH | {"self.get_connect_duration", "self.resolve_default_timeout", "Timeout.resolve_default_timeout"}
        if foreign_idiom is None:
            foreign_idiom = any(not within_vocabulary(_norm(term_of(o2.val)), VOC) for o2 in _rows(outs) if o2.kind == "return")
        if foreign_idiom:
            # computed in a way the rule does not recognise (DESIGN 13.2): provenance only - the value depends on total, read and
            # the elapsed time alone, and whenever a total is set the remaining budget total - elapsed takes part
            atoms = {x for x in subterms(rt) if destruct(x)[0] is None and x.startswith(("self.", "p:"))}
            okp = atoms <= {Tt, Rd} and (t_unset is not False or E in set(subterms(rt)) or rt in (Rd, "0"))
            ctx.ob(R3, rtp.qual, f"read_timeout computed by an unrecognised idiom [total unset={t_unset}, read unset={r_unset}]: depends only on total, read and the elapsed time (provenance only)", okp,
                   "" if okp else f"{rt[:100]}", witness=o.st.witness(), node=rtp.node)
            continue
        if t_unset is True:
            ok = rt in (T("self.resolve_default_timeout", Rd), T("Timeout.resolve_default_timeout", Rd), Rd)
            why = "without a total the response wait is the configured read value"
        elif t_unset is False and r_unset is True:
            ok, why = rt == _norm(T("max", "0", E)), "with only a total the response wait must be max(0, total - elapsed)"
        elif t_unset is False and r_unset is False:
            if started is True:  # clock not started yet
                ok, why = rt == Rd, "before the clock is started only the read value is known"
            else:
                ok, why = rt == _norm(T("max", "0", T("min", E, Rd))), "with both set the response wait must be max(0, min(total - elapsed, read))"
        else:
            ok, why = False, f"a value is returned without deciding whether total / read are set (total unset={t_unset}, read unset={r_unset})"
        ctx.ob(R3, rtp.qual, f"read_timeout -> {rt} [total unset={t_unset}, read unset={r_unset}, clock unstarted={started}]", ok,
               "" if ok else why + ": the response wait is not clamped to [0, min(read, total - elapsed)]", witness=o.st.witness(), node=rtp.node)
    ctx.sites(R3, n, 3, "rows of read_timeout")
    gd = m.method(TIMEOUT, "get_connect_duration")
    outs, it = run_function(m, gd, TRule(), TIMEOUT, inline=frozenset(set(helper_closure(m, [gd], stop=STOP19)) - {gd.qual}))
    grow = [o for o in _rows(outs) if o.kind == "return"]
    ok = bool(grow) and all(term_of(o.val) == T("sub", T("time.monotonic"), "self._start_connect") for o in grow)
    ctx.ob(R3, gd.qual, "elapsed = monotonic() - start stamp", ok, "" if ok else str([term_of(o.val) for o in grow]))

    # ------------------------------------------------------------------ R4 order in _make_request
    R4 = ctx.rule("C19-R4", "order in _make_request: clock started, then the connect timeout applied to the connection, then validation/connect and the request; the read timeout is computed after the request was sent; a zero budget raises ReadTimeoutError and the read timeout is applied before getresponse()", "E3 via E4 (helpers that touch the timeout are inlined)")
    mr = m.method(POOL, "_make_request")
    HOT_ATTRS = {"read_timeout", "connect_timeout", "start_connect", "getresponse"}

    def hot(fi):
        for n_ in ast.walk(fi.node):
            if isinstance(n_, ast.Attribute) and n_.attr in HOT_ATTRS:
                return True
            if isinstance(n_, ast.Assign) and any(isinstance(t, ast.Attribute) and t.attr == "timeout" for t in n_.targets):
                return True
        return False

    modelled = {"_validate_conn", "_get_timeout", "_raise_timeout", "_make_request", "urlopen", "_prepare_proxy", "_new_conn", "_get_conn", "_put_conn"}
    inline = {f.qual for n_, f in m.cls(POOL).methods.items() if n_ not in modelled and hot(f)}
    inline |= set(helper_closure(m, [mr], stop=tuple(modelled))) - {mr.qual}
    ctx.extra["c19_inlined_helpers"] = sorted(inline)

    class MR(BaseRule):
        def call(self, it, st, node, recv, pos, kw):
            t = ast.unparse(node.func)
            ev_name = None
            f_ = node.func
            if isinstance(f_, ast.Attribute) and recv is not None and recv.kind == "obj":
                ev_name = {("timeout_obj", "start_connect"): "start", ("conn", "request"): "request", ("conn", "getresponse"): "getresponse"}.get((recv.val, f_.attr))
            if t == "self._validate_conn":
                ev_name = "validate"
            if ev_name:
                s = st.copy()
                s.ts["ev"] = s.ts.get("ev", ()) + (ev_name,)
                return [Out("normal", s, UNK)]
            if t == "self._get_timeout":
                return [Out("normal", st, AV("obj", "timeout_obj", truth=True, none=False))]
            if t == "Timeout.resolve_default_timeout":
                a0 = pos[0] if pos else (next(iter(kw.values())) if kw else None)
                return [Out("normal", st, AV("unk", sym=a0.sym if a0 is not None else None, tags=frozenset(a0.tags | {"resolved"}) if a0 is not None else frozenset()))]
            q = it.resolve_callee(node, recv)
            if q and it.m.is_exception_class(q):
                return [Out("normal", st, AV("exc", it.m.norm(q), truth=True, none=False))]
            if q in inline:
                return None  # inlined by the interpreter
            return [Out("normal", st, UNK)]

        def getattr(self, it, st, node, base):
            if base.kind == "obj" and base.val == "timeout_obj" and node.attr in ("connect_timeout", "read_timeout"):
                st.ts["ev"] = st.ts.get("ev", ()) + (f"read:{node.attr}",)
                return AV("unk", sym=node.attr, tags=frozenset({node.attr}))
            return None

        def setattr(self, it, st, target, base, av):
            if isinstance(target, ast.Attribute) and target.attr == "timeout" and base is not None and base.kind == "obj" and base.val == "conn":
                st.ts["ev"] = st.ts.get("ev", ()) + ("set-conn-timeout:" + ",".join(sorted(t for t in av.tags if t in ("connect_timeout", "read_timeout"))),)

    outs, it = run_function(m, mr, MR(), POOL, inline=frozenset(inline), params={"conn": AV("obj", "conn", truth=True, none=False)}, record_decisions=True)
    ctx.states += it.budget.steps
    seen = set()
    for o in outs:
        seq = evs(o)
        if seq in seen:
            continue
        seen.add(seq)
        name = outcome_name(o)

        def idx(x):
            return seq.index(x) if x in seq else None

        checks = []
        if idx("validate") is not None:
            checks.append(("clock started before validation/connect", idx("start") is not None and idx("start") < idx("validate")))
            sct = idx("set-conn-timeout:connect_timeout")
            checks.append(("connect timeout applied before validation/connect", sct is not None and idx("start") is not None and sct < idx("validate") and idx("start") < sct))
        if idx("request") is not None:
            checks.append(("validation precedes the request", idx("validate") is not None and idx("validate") < idx("request")))
        if idx("getresponse") is not None:
            rrs = [i for i, e in enumerate(seq) if e == "read:read_timeout" and i < idx("getresponse")]
            rr = rrs[-1] if rrs else None
            checks.append(("read timeout (last) computed after the request was sent", rr is not None and idx("request") is not None and rr > idx("request")))
            closed = o.st.facts.get("field:conn.is_closed", (None, None))[0]
            srt = idx("set-conn-timeout:read_timeout")
            if closed is not True:
                checks.append(("read timeout applied to the connection before getresponse()", srt is not None and srt < idx("getresponse")))
                checks.append(("a zero read budget never reaches getresponse()", o.st.ts.get(("cmp", "read_timeout", "==", "0")) is False))
        for what, ok in checks:
            ctx.ob(R4, mr.qual, f"[{name}] {what}", ok, "" if ok else f"events {seq}", witness=o.st.witness(), node=mr.node)
    zero = [o for o in outs if o.st.ts.get(("cmp", "read_timeout", "==", "0")) is True]
    ok = bool(zero) and all(o.kind == "raise" and o.val.val.endswith("ReadTimeoutError") and "getresponse" not in evs(o) for o in zero)
    ctx.ob(R4, mr.qual, "read budget == 0 raises ReadTimeoutError without waiting", ok, "" if ok else "an exhausted total still waits on the socket (timeout 0 means non-blocking/forever depending on platform)")
    ctx.sites(R4, len(seen), 3, "event sequences of _make_request")
    # every connect() reachable on the request path happens under a started clock
    uo = m.method(POOL, "urlopen")
    pp = [c for c in astq.calls(uo.node) if astq.call_text(c) == "self._prepare_proxy"]
    started_before = [c for c in astq.calls(uo.node) if astq.call_text(c).endswith(".start_connect") and pp and c.lineno < pp[0].lineno]
    for c in pp:
        ok = bool(started_before)
        ctx.ob(R4, uo.qual, "tunnel set-up (_prepare_proxy -> connect) runs under the request's started clock", ok,
               "" if ok else "the CONNECT/TLS set-up through a proxy happens before _make_request starts the request's clock (on a fresh clone): its duration is not deducted from `total`, so the response wait can exceed total - time already spent connecting", node=c)
        conn_names = set(astq.assigned_from(uo.node, lambda v: isinstance(v, ast.Call) and astq.call_text(v) == "self._get_conn"))
        prev = [n_ for n_ in astq.walk_fn(uo.node) if isinstance(n_, ast.Assign) and isinstance(n_.targets[0], ast.Attribute) and n_.targets[0].attr == "timeout"
                and astq.text(n_.targets[0].value) in conn_names and n_.lineno < c.lineno]
        okc = bool(prev) and "connect_timeout" in astq.text(prev[-1].value)
        ctx.ob(R4, uo.qual, "the connect timeout is applied to the connection before the tunnel set-up", okc, node=c)

    # ------------------------------------------------------------------ R5 socket application
    R5 = ctx.rule("C19-R5", "the connection's timeout is applied to the socket before sending and before waiting for the response", "E4 events (helpers that touch the socket timeout are inlined)")
    HC = f"{CN}.HTTPConnection"
    sock_helpers = {f.qual for n_, f in m.cls(HC).methods.items() if n_ not in ("request", "getresponse", "connect", "_new_conn", "request_chunked")
                    and any(isinstance(x, ast.Attribute) and x.attr == "settimeout" for x in ast.walk(f.node))}

    class SockRule(TermRule):
        def getattr(self, it, st, node, base):
            if base.kind == "self":
                return tv(f"self.{node.attr}")
            return None

        def call_hook(self, it, st, node, recv, pos, kw):
            f = node.func
            t = ast.unparse(f)
            if isinstance(f, ast.Attribute) and f.attr == "settimeout" and recv is not None:
                s = st.copy()
                s.ts["ev"] = s.ts.get("ev", ()) + (("settimeout", term_of(recv), term_of(pos[0]) if pos else "?"),)
                return [Out("normal", s, const(None))]
            io = t in ("self.putrequest", "self.endheaders", "self.send", "super().getresponse", "super().request", "self._send_request")
            if io:
                s = st.copy()
                s.ts["ev"] = s.ts.get("ev", ()) + (("io", t),)
                return [Out("normal", s, tv(T("io:" + t), none=False, truth=True))]
            q = it.resolve_callee(node, recv)
            if q in sock_helpers:
                return None
            if q and it.m.is_exception_class(q):
                return [Out("normal", st, AV("exc", it.m.norm(q), truth=True, none=False))]
            return [Out("normal", st, UNK)]

        def for_iter(self, it, st, stmt, itv):
            return [(st.copy(), False)]  # body chunks are irrelevant to the ordering

    for name in ("request", "getresponse"):
        fi = m.method(HC, name)
        outs, it = run_function(m, fi, SockRule(), HC, inline=frozenset(sock_helpers), budget=400000)
        ctx.states += it.budget.steps
        seen = set()
        nio = 0
        for o in outs:
            seq = evs(o)
            ios = [i for i, e in enumerate(seq) if e[0] == "io"]
            if not ios:
                continue
            sock_none = o.st.facts.get("self.sock", (None, None))[1]
            sets = [i for i, e in enumerate(seq) if e[0] == "settimeout" and e[1] == "self.sock" and e[2] == "self.timeout" and i < ios[0]]
            key = (bool(sets), sock_none)
            if key in seen:
                continue
            seen.add(key)
            nio += 1
            need = not (name == "request" and sock_none is True)  # no socket yet: connect() creates it with the timeout
            ok = bool(sets) or not need
            ctx.ob(R5, fi.qual, f"sock.settimeout(self.timeout) precedes the I/O (socket absent={sock_none})", ok,
                   "" if ok else f"events {seq[:6]}: a reused connection keeps the previous request's socket timeout", witness=o.st.witness(), node=fi.node)
        ctx.sites(R5, nio, 1, f"I/O paths of {name}")
    nc = m.method(HC, "_new_conn")
    cc = [c for c in astq.calls(nc.node) if astq.call_text(c).endswith("create_connection")]
    ok = bool(cc) and (len(cc[0].args) > 1 and astq.itext(nc.node, cc[0].args[1]) == "self.timeout" or (astq.kwarg(cc[0], "timeout") is not None and astq.itext(nc.node, astq.kwarg(cc[0], "timeout")) == "self.timeout"))
    ctx.ob(R5, nc.qual, "the connect uses the connection's timeout", ok)

    # ------------------------------------------------------------------ R7 timeout mapping
    R7 = ctx.rule("C19-R7", "socket timeouts surface as ReadTimeoutError: socket.timeout and EAGAIN/EWOULDBLOCK map to ReadTimeoutError", "E10 effect rows of _raise_timeout")
    rt_ = m.method(POOL, "_raise_timeout")
    pe = "p:" + rt_.params()[0]
    outs, it = run_function(m, rt_, TRule(), POOL, inline=frozenset(set(helper_closure(m, [rt_], stop=STOP19)) - {rt_.qual}))
    ctx.states += it.budget.steps
    seen = set()
    n_sock = n_errno = 0
    for o in _rows(outs):
        is_sock = None
        for k, v in o.st.ts.items():
            if isinstance(k, tuple) and k[0] == "isinst" and k[1] == pe:
                is_sock = v
        has = o.st.facts.get(T("hasattr", pe, "'errno'"), (None, None))[0]
        blocking = o.st.ts.get(("cmp", f"{pe}.errno", "in", "g:_blocking_errnos"))
        ga = o.st.ts.get(("cmp", T("getattr", pe, "'errno'", "None"), "in", "g:_blocking_errnos"))
        if blocking is None and ga is not None:
            # getattr(err, "errno", None) in <set of ints>: true only for an error that has a blocking errno
            blocking, has = ga, (True if ga else has)
        name = outcome_name(o)
        key = (is_sock, has, blocking, name)
        if key in seen:
            continue
        seen.add(key)
        if is_sock is True:
            n_sock += 1
            ctx.ob(R7, rt_.qual, f"socket.timeout -> {name}", name == "raise:ReadTimeoutError", "" if name == "raise:ReadTimeoutError" else "a socket timeout is not reported as ReadTimeoutError", witness=o.st.witness(), node=rt_.node)
        elif has is True and blocking is True:
            n_errno += 1
            ctx.ob(R7, rt_.qual, f"EAGAIN/EWOULDBLOCK -> {name}", name == "raise:ReadTimeoutError", "" if name == "raise:ReadTimeoutError" else "a would-block error of a timed-out non-blocking read is not reported as ReadTimeoutError", witness=o.st.witness(), node=rt_.node)
        else:
            ok = o.kind != "raise"
            ctx.ob(R7, rt_.qual, f"not a timeout (socket.timeout={is_sock}, errno present={has}, blocking errno={blocking}) -> {name}", ok,
                   "" if ok else "an error that is not a timeout is turned into one", witness=o.st.witness(), node=rt_.node)
    ctx.sites(R7, n_sock, 1, "rows for socket.timeout")
    ctx.sites(R7, n_errno, 1, "rows for blocking errnos")
    isinst_cls = set()
    for o in _rows(outs):
        for k in o.st.ts:
            if isinstance(k, tuple) and k[0] == "isinst" and k[1] == pe:
                isinst_cls |= set(k[2])
    ctx.ob(R7, rt_.qual, f"the class tested is socket.timeout ({sorted(isinst_cls)})", bool(isinst_cls) and all(m.issub("socket.timeout", c) and m.issub(c, "builtins.OSError") for c in isinst_cls if c))
    try:
        be = fold.module_const(CP, "_blocking_errnos")
    except Exception:
        be = None
    import errno as _errno

    ok = isinstance(be, (set, frozenset)) and {str(x) for x in be} >= {"errno.EAGAIN", "errno.EWOULDBLOCK"} or be == {_errno.EAGAIN, _errno.EWOULDBLOCK}
    if not ok:
        bs = m.assigns.get(CP, {}).get("_blocking_errnos")
        txt = astq.text(bs[-1].value) if bs else ""
        ok = "errno.EAGAIN" in txt and "errno.EWOULDBLOCK" in txt
    ctx.ob(R7, CP, "_blocking_errnos contains EAGAIN and EWOULDBLOCK", ok)
    from ..rows import helper_closure as _hc19
    rt_params = [p_ for p_ in rt_.params()]
    okr = False
    for q_ in sorted(_hc19(m, [mr], stop=("_raise_timeout", "urlopen"))):
        fn_ = m.funcs.get(q_)
        if fn_ is None:
            continue
        for c in astq.calls(fn_.node):
            if astq.call_text(c) != "self._raise_timeout":
                continue
            # the argument bound to `timeout_value`, by keyword or by position
            tv_ = astq.kwarg(c, "timeout_value")
            if tv_ is None and "timeout_value" in rt_params and rt_params.index("timeout_value") < len(c.args):
                tv_ = c.args[rt_params.index("timeout_value")]
            if tv_ is None:
                continue
            src = list(astq.sources_of(fn_.node, tv_))
            okr = okr or any(isinstance(x, ast.Attribute) and x.attr == "read_timeout" for x in src) or any(isinstance(x, ast.Call) for x in src)
    ctx.ob(R7, mr.qual, "getresponse() errors are passed to _raise_timeout with the read timeout", okr)
