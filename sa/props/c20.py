"""C20 - multipart form encoding is structurally sound for any field content."""
from __future__ import annotations

import ast

from .. import astq
from ..events import outcome_name, run_function
from ..interp import AV, UNK, BaseRule, Out, const
from ..model import AnalysisError

FP = "urllib3.filepost"
FL = "urllib3.fields"
RF = f"{FL}.RequestField"


def _classify_write(arg, boundary_names):
    """Shape of the value written to the body."""
    a = arg
    if isinstance(a, ast.Call) and isinstance(a.func, ast.Attribute) and a.func.attr == "encode":
        a = a.func.value
    if isinstance(a, ast.JoinedStr):
        lits = [v.value for v in a.values if isinstance(v, ast.Constant)]
        fmts = [astq.text(v.value) for v in a.values if isinstance(v, ast.FormattedValue)]
        if len(fmts) == 1 and fmts[0] in boundary_names:
            if lits == ["--", "\r\n"]:
                return "delim"
            if lits == ["--", "--\r\n"]:
                return "close"
        return "fstring:" + astq.text(a)[:40]
    if isinstance(a, ast.Constant) and a.value in (b"\r\n", "\r\n"):
        return "crlf"
    if isinstance(a, ast.Call) and isinstance(a.func, ast.Attribute) and a.func.attr == "render_headers":
        return "headers"
    if isinstance(a, ast.Name):
        return f"name:{a.id}"
    return "other:" + astq.text(a)[:40]


class LayoutRule(BaseRule):
    def __init__(self, boundary_names):
        self.bn = boundary_names
        self.viol = []
        self.iters = 0

    def _check_iter(self, st, node):
        seq = st.ts.get("iter_seq")
        if seq is None:
            return
        ok = len(seq) == 4 and seq[0] == "delim" and seq[1] == "headers" and seq[2].startswith("data") and seq[3] == "crlf"
        if not ok:
            self.viol.append((f"one part is written as {seq} instead of (delimiter, headers, data, CRLF)", st, node))

    def for_iter(self, it, st, stmt, itv):
        self._check_iter(st, stmt)
        self.iters += 1
        s = st.copy()
        s.ts["iter_seq"] = ()
        it.assign(s, stmt.target, AV("obj", "field", truth=True, none=False))
        e = st.copy()
        e.ts.pop("iter_seq", None)
        e.ts["after"] = ()
        return [(s, True), (e, False)]

    def loop_break(self, it, stmt, st):
        self.viol.append(("the loop over the fields can stop early", st, stmt))

    def call(self, it, st, node, recv, pos, kw):
        t = ast.unparse(node.func)
        f = node.func
        if isinstance(f, ast.Attribute) and f.attr == "write" and node.args:
            base = astq.text(f.value)
            kind = _classify_write(node.args[0], self.bn)
            if kind.startswith("name:"):
                av = pos[0]
                via_writer = base.startswith("writer(")
                # data: decide str vs bytes by the isinstance facts recorded on the path
                kind = "data:" + ("utf8-writer" if via_writer else "raw")
                isstr = st.ts.get(("isinst", av.sym, ("builtins.str",))) if av.sym else None
                if av.typ == "builtins.str":
                    isstr = True
                if isstr is not False and not via_writer:
                    self.viol.append(("data that may be str is written without UTF-8 encoding", st, node))
                if isstr is not True and via_writer:
                    self.viol.append(("data that may be bytes is passed through the text writer", st, node))
            elif kind == "headers":
                if not base.startswith("writer("):
                    kind = "headers-raw"
            s = st.copy()
            if "iter_seq" in s.ts:
                s.ts["iter_seq"] = s.ts["iter_seq"] + (kind,)
            elif "after" in s.ts:
                s.ts["after"] = s.ts["after"] + (kind,)
            else:
                s.ts["before"] = s.ts.get("before", ()) + (kind,)
            s.log(node, f"WRITE {kind}")
            return [Out("normal", s, UNK)]
        if t == "str" and pos:
            return [Out("normal", st, AV("unk", sym="str-of-int", typ="builtins.str"))]
        if t in ("BytesIO", "writer", "choose_boundary", "iter_field_objects", "body.getvalue"):
            if t == "choose_boundary":
                return [Out("normal", st, AV("unk", sym="boundary-random", truth=True, none=False))]
            return [Out("normal", st, AV("unk", none=False))]
        if t.endswith(".render_headers"):
            return [Out("normal", st, AV("unk", sym="rendered"))]
        return None

    def getattr(self, it, st, node, base):
        if base.kind == "obj" and base.val == "field" and node.attr == "data":
            return AV("unk", sym="data")
        return None


def run(ctx):
    from ..rows import GenRule, effect_rows, private_helpers
    from ..terms import K, T, destruct, is_opaque, norm, occurs_only_under, subterms

    m, fold = ctx.model, ctx.fold
    ctx.assume("A1")
    ctx.decline("parsing the produced body back with an independent multipart parser (byte-level round trip)")

    R1 = ctx.rule("C20-R1", "sanitizer on every flow: field name and filename reach a header only through _render_parts -> _render_part -> the header formatter, whose default is format_multipart_header_param", "E10 effect rows + term taint (a source atom may occur only under the allowed wrapper)")
    R2 = ctx.rule("C20-R2", "escape table: CR, LF and double quote are percent-encoded and the value is wrapped in double quotes", "E4 sanitizer typestate + E7")
    R3 = ctx.rule("C20-R3", "layout: per field exactly delimiter line, rendered headers, data, CRLF - then the closing delimiter; str data UTF-8 encoded, bytes unchanged; header block ends with an empty line", "E10 effect rows (ordered writes as terms)")
    R4 = ctx.rule("C20-R4", "one boundary: the same definition reaches every delimiter and the returned content type", "E10 effect rows")
    R5 = ctx.rule("C20-R5", "request_encode_body sends the body with the content type the encoder returned", "E10 effect rows")

    cls = m.cls(RF)
    helpers = private_helpers(m, FL, RF, exclude=("_render_parts", "_render_part"))

    # ---------------- R1: taint discipline over terms
    SRC = ("self._name", "self._filename")

    def tainted_terms(rows):
        for r in rows:
            for e in r.ev:
                for x in e:
                    if isinstance(x, str):
                        yield r, x
            if r.ret:
                yield r, r.ret

    n_src = 0
    for name, fi in sorted(cls.methods.items()):
        if name in ("__init__", "from_tuples"):
            continue  # construction only stores the raw values
        rows = effect_rows(ctx, fi, GenRule(ctx, FL, inline=helpers, pure_self=("_render_parts", "_render_part", "header_formatter")), RF)
        seen = set()
        for r, t in tainted_terms(rows):
            for src in SRC:
                if src in t and (name, t, src) not in seen:
                    seen.add((name, t, src))
                    n_src += 1
                    ok = occurs_only_under(t, src, {"self._render_parts"})
                    ctx.ob(R1, fi.qual, f"{src} occurs only inside self._render_parts(...) in {t[:80]}", ok,
                           "" if ok else "the raw name/filename is used outside the escaping route: quotes or CR/LF in it can break out of the parameter", witness=r.witness(), node=fi.node)
    ctx.sites(R1, n_src, 2, "terms mentioning _name / _filename")
    rp = m.method(RF, "_render_parts")
    rows = [r for r in effect_rows(ctx, rp, GenRule(ctx, FL, inline=helpers, pure_self=("_render_part",)), RF) if r.returns]
    ctx.sites(R1, len(rows), 1, "returning rows of _render_parts")
    seen = set()
    n_rendered = 0
    for r in rows:
        t = r.ret
        if t in seen:
            continue
        seen.add(t)
        # every element of the iterable that reaches the result does so as self._render_part(<name>, <value>) of ONE pair
        elems = [x for x in subterms(t) if destruct(x)[0] in ("each0", "each1", "idx") and ("p:header_parts" in x)]
        # (occurrences inside a comprehension's filter condition decide, they do not reach the result)
        ok = all(occurs_only_under(t, x, {"self._render_part", "cmp:isnot", "cmp:is", "cmp:eq", "cmp:ne", "truthy", "isinstance"}) for x in elems)
        calls = [x for x in subterms(t) if destruct(x)[0] == "self._render_part"]
        pair_ok = all(len(destruct(c)[1]) == 2 and destruct(c)[1][0].replace("each0", "E").replace("idx(", "E(") != destruct(c)[1][1] for c in calls)
        n_rendered += len(calls)
        for c in calls:
            val = destruct(c)[1][1] if len(destruct(c)[1]) == 2 else None
            not_none = r.is_none(val) is False if val else None
            if not_none is not True and val:
                # rendered inside a comprehension: its filter must exclude None
                for g_ in subterms(t):
                    gop, gargs = destruct(g_)
                    if gop in ("gen", "listcomp") and c in list(subterms(gargs[0])) and T("cmp:isnot", val, "None") in gargs[2:]:
                        not_none = True
            ctx.ob(R1, rp.qual, "a part is rendered only when its value is not None", not_none is True,
                   "" if not_none is True else "a missing value (e.g. no filename) is rendered as a parameter: the part carries a Content-Disposition the field does not specify", witness=r.witness(), node=rp.node)
        ctx.ob(R1, rp.qual, f"header parts reach the result only as self._render_part(name, value): {t[:90]}", ok and pair_ok,
               "" if ok and pair_ok else "a header part is assembled without the formatter", witness=r.witness(), node=rp.node)
    ctx.sites(R1, n_rendered, 1, "self._render_part(...) terms in the result of _render_parts")
    r1 = m.method(RF, "_render_part")
    rows = [r for r in effect_rows(ctx, r1, GenRule(ctx, FL, inline=helpers, pure_self=("header_formatter",)), RF) if r.returns]
    p = ["p:" + x for x in r1.params()[:2]]
    ok = bool(rows) and all(r.ret == T("self.header_formatter", *p) for r in rows)
    ctx.ob(R1, r1.qual, "_render_part delegates (name, value) to the header formatter", ok, "; ".join(r.ret for r in rows)[:120])
    init = m.method(RF, "__init__")
    from ..rows import helper_closure as _hc1
    irows1 = [r for r in effect_rows(ctx, init, GenRule(ctx, init.module, inline=frozenset(_hc1(m, [init]) - {init.qual})), init.clsq) if r.returns]
    finals = {}
    for r in irows1:
        st1 = [e[3] for e in r.events("store") if e[1] == "self" and e[2] == "header_formatter"]
        finals.setdefault(r.is_none("p:header_formatter"), set()).add(st1[-1] if st1 else None)
    ctx.sites(R1, len(irows1), 1, "returning rows of RequestField.__init__")
    ok = finals.get(True) == {f"fn:{FL}.format_multipart_header_param"} and finals.get(False, {"p:header_formatter"}) == {"p:header_formatter"}
    ctx.ob(R1, init.qual, "default header formatter is format_multipart_header_param", ok, str({k_: sorted(map(str, v_)) for k_, v_ in finals.items()}))
    mm = m.method(RF, "make_multipart")

    from ..terms import term_of as term_of_
    rows = [r for r in effect_rows(ctx, mm, GenRule(ctx, FL, inline=helpers, pure_self=("_render_parts",)), RF) if r.returns]
    cds = [(r, e) for r in rows for e in r.events("setitem") if e[2] == K("Content-Disposition")]
    ctx.sites(R1, len(cds), 1, "Content-Disposition stores")
    seen = set()
    want_rp = T("self._render_parts", T("tuple", T("tuple", K("name"), "self._name"), T("tuple", K("filename"), "self._filename")))
    for r, e in cds:
        v = norm(e[3])
        if v in seen:
            continue
        seen.add(v)
        op, args = destruct(v)
        ok = False
        if op == "cat" and len(args) >= 2 and args[-1] in (want_rp, want_rp.replace("tuple(tuple", "list(tuple", 1)):
            sep_c = destruct(args[-2])
            ok = sep_c[0] == "const" and isinstance(sep_c[1], str) and sep_c[1].endswith("; ") and (len(args) == 2 or "p:content_disposition" in args[0])
        cd_truth = r.truth("p:content_disposition")
        first = args[0] if op == "cat" and args else ""
        fc = destruct(first)
        if cd_truth is True:
            ok = ok and first == "p:content_disposition"
        elif cd_truth is False:
            ok = ok and fc[0] == "const" and isinstance(fc[1], str) and fc[1].startswith("form-data")
        else:
            ok = False
        ctx.ob(R1, mm.qual, f"Content-Disposition = <given type or form-data>; _render_parts((name, filename)): {v[:100]}", bool(ok), "" if ok else "the header is not the disposition type followed by `; ` and the rendered (name, filename) pairs", witness=r.witness(), node=mm.node)

    # ---------------- R2 (path-sensitive: the value reaches the result escaped on EVERY path)
    _run_r2(ctx, R2)

    # ---------------- R3 / R4: ordered writes of encode_multipart_formdata as terms
    enc = m.func(f"{FP}.encode_multipart_formdata")
    bparam = "boundary"
    if bparam not in enc.params():
        raise AnalysisError("encode_multipart_formdata has no boundary parameter")
    fp_helpers = private_helpers(m, FP, exclude=())

    class Enc(GenRule):
        def call_hook(self, it, st, node, recv, pos, kw):
            f = node.func
            t = ast.unparse(f)
            if isinstance(f, ast.Attribute) and f.attr == "write" and pos:
                # writer(buf).write(s)  ==  buf.write(s.encode("utf-8"))
                if recv is not None and recv.sym and recv.sym.startswith("writer("):
                    buf = destruct(recv.sym)[1][0]
                    val = T("encode", term_of_(pos[0]), K("utf-8"))
                else:
                    buf = term_of_(recv) if recv is not None else "?"
                    val = term_of_(pos[0])
                s = st.copy()
                self.ev(s, "write", buf, val)
                return [Out("normal", s, UNK)]
            if t == "BytesIO" and not pos:
                return [Out("normal", st, AV("unk", sym="buf", none=False, truth=True))]
            if t == "writer" and len(pos) == 1:
                return [Out("normal", st, AV("unk", sym=T("writer", term_of_(pos[0])), none=False, truth=True))]
            if t == "choose_boundary":
                return [Out("normal", st, AV("unk", sym="random-boundary", none=False, truth=True))]
            if t == "iter_field_objects":
                return [Out("normal", st, AV("unk", sym=T("fields", term_of_(pos[0]) if pos else "?"), none=False))]
            return super().call_hook(it, st, node, recv, pos, kw)

    rows = [r for r in effect_rows(ctx, enc, Enc(ctx, FP, inline=fp_helpers), None) if r.returns]
    ctx.sites(R3, len(rows), 2, "returning rows of encode_multipart_formdata")
    w = fold.try_module_const(FP, "writer")
    wstmt = m.assigns.get(FP, {}).get("writer")
    ok = bool(wstmt) and astq.text(wstmt[-1].value).replace("'", '"') == 'codecs.lookup("utf-8")[3]'
    ctx.ob(R3, FP, "text writer is the UTF-8 stream writer", ok, astq.text(wstmt[-1].value) if wstmt else "missing")
    FIELDS = T("fields", "p:fields")
    FLD = T("each", FIELDS)
    seen = set()
    full_iter = 0
    if rows and not any(r.events("write") for r in rows) and any(isinstance(c_.func, ast.Attribute) and c_.func.attr == "writelines" for c_ in astq.calls(enc.node)):
        # the body is produced by one writelines(<chunks>) over a generator of chunks: the layout is inside that generator, which the
        # rule does not read (DESIGN 13.2) - provenance only: the chunks are computed from the fields and the boundary alone
        okp = True
        for r in rows:
            for e_ in r.ev:
                if e_[0] == "call" and isinstance(e_[1], str) and e_[1].endswith(".writelines"):
                    at_ = {a_ for x_ in e_[2:] if isinstance(x_, str) for a_ in subterms(x_) if destruct(a_)[0] is None and a_.startswith(("p:", "self.", "g:"))}
                    okp = okp and at_ <= {"p:fields", "p:boundary"}
        ctx.ob(R3, enc.qual, "encoder idiom not recognised (writelines over a generator of chunks): the chunks depend on the fields and the boundary only (provenance only)", okp, node=enc.node)
        rows = []
        full_iter = 2
    for r in rows:
        B = "p:boundary" if r.is_none("p:boundary") is False else ("random-boundary" if r.is_none("p:boundary") is True else None)
        ws = [(norm(e[2]), e[3] if len(e) > 3 else ()) for e in r.events("write")]
        key = (B, tuple(ws), r.ret)
        if key in seen:
            continue
        seen.add(key)
        if B is None:
            ctx.ob(R4, enc.qual, "the boundary is decided (given or random) before anything is written", False, "a row writes without knowing which boundary is in use", witness=r.witness(), node=enc.node)
            continue

        def enc_lit(*parts):
            return norm(T("cat", *parts))
        delim = {T("encode", enc_lit(K("--"), B, K("\r\n")), K(e_)) for e_ in ("latin-1", "utf-8", "ascii")}
        close = {T("encode", enc_lit(K("--"), B, K("--\r\n")), K(e_)) for e_ in ("latin-1", "utf-8", "ascii")}
        hdrs = T("encode", T(f"{FLD}.render_headers"), K("utf-8"))
        inloop = [(v, lp) for v, lp in ws if lp and lp[0] == "in" and FIELDS in lp]
        after = [(v, lp) for v, lp in ws if not lp]
        other = [(v, lp) for v, lp in ws if lp and not (lp[0] == "in" and FIELDS in lp)]
        ok_after = len(after) == 1 and after[0][0] in close and ws and ws[-1] == after[0]
        ctx.ob(R3, enc.qual, f"outside the loop exactly the closing delimiter is written, last ({len(after)} write(s))", ok_after and not other,
               "" if ok_after and not other else f"writes outside the per-field loop: {[v[:60] for v, _ in after + other]}: the body must end with exactly one closing delimiter and nothing may precede the first delimiter", witness=r.witness(), node=enc.node)
        if inloop:
            full_iter += 1
            vals = [v for v, _ in inloop]
            is_str = None
            data_t = f"{FLD}.data"
            for k_, v_ in r.st.ts.items():
                if isinstance(k_, tuple) and k_[0] == "isinst" and any("str" in (c or "") for c in k_[2]) and (k_[1] == data_t or k_[1] == T("str", data_t)):
                    is_str = v_ if is_str is None else (is_str or v_)
            is_int = r.isinst(data_t, "int")
            d = data_t if not is_int else T("str", data_t)
            if is_int is True or is_str is True:
                want_data = T("encode", d, K("utf-8"))
            else:
                want_data = d
            ok = len(vals) == 4 and vals[0] in delim and vals[1] == hdrs and vals[2] == want_data and vals[3] == K(b"\r\n")
            why = ""
            if not ok:
                why = f"one part is written as {[v[:50] for v in vals]} instead of (delimiter, UTF-8 headers, data [{want_data}], CRLF)"
            ctx.ob(R3, enc.qual, f"one part = delimiter, headers, data ({'text, UTF-8' if want_data != d or is_int else 'bytes, unchanged'}), CRLF", ok, why, witness=r.witness(), node=enc.node)
        # R4: the returned content type names the same boundary
        op, args = destruct(r.ret or "")
        ct_ok = op == "tuple" and len(args) == 2 and norm(args[1]) == enc_lit(K("multipart/form-data; boundary="), B) and args[0] in (T("buf.getvalue"),)
        ctx.ob(R4, enc.qual, f"returns (the buffer's bytes, multipart/form-data; boundary=<{B}>)", ct_ok, "" if ct_ok else f"returns {r.ret}", witness=r.witness(), node=enc.node)
    ctx.sites(R3, full_iter, 2, "rows that write a part")
    rh = m.method(RF, "render_headers")
    rh_rule = GenRule(ctx, FL, inline=helpers)
    rh_rule.unroll_const_loops = False  # this rule reads the loop over the leading header names as one generic iteration
    rows = [r for r in effect_rows(ctx, rh, rh_rule, RF) if r.returns]
    ok = bool(rows)
    n_lines = 0
    seen = set()
    for r in rows:
        op, args = destruct(r.ret)
        lst = args[1] if op == "join" and len(args) == 2 else ""

        def _elements(t_):
            """elements of a list expression: a display, a concatenation of lists, a comprehension (as one starred element)"""
            o_, a_ = destruct(t_)
            if o_ == "list":
                return list(a_)
            if o_ == "add" and len(a_) == 2:
                l_, r_ = _elements(a_[0]), _elements(a_[1])
                return None if l_ is None or r_ is None else l_ + r_
            if o_ in ("listcomp", "gen"):
                return [T("star", t_)]
            return None

        largs = _elements(lst)
        lop = "list" if largs is not None else None
        largs = tuple(largs or ())
        ok = ok and op == "join" and args[0] == K("\r\n") and lop == "list" and bool(largs) and largs[-1] == K("\r\n")
        if not (lop == "list" and largs):
            continue
        # lines produced by a comprehension: `name: value` of one element of a sequence derived from the headers, kept only when
        # the value is set.  (Which order a re-sorted sequence has is not decided - DESIGN 13.2.)
        comp = [x for x in largs[:-1] if destruct(x)[0] == "star" and destruct(destruct(x)[1][0])[0] in ("listcomp", "gen")]
        if comp:
            for x in comp:
                n_lines += 1
                cop, cargs = destruct(destruct(x)[1][0])
                line, loop, conds = norm(cargs[0]), cargs[1], list(cargs[2:])
                flat = []
                while conds:
                    c_ = conds.pop()
                    if destruct(c_)[0] == "and":
                        conds += list(destruct(c_)[1])
                    else:
                        flat.append(c_)
                conds = flat
                lop2, lparts = destruct(line)
                shape = lop2 == "cat" and len(lparts) == 3 and lparts[1] == K(": ")
                E = T("each", loop)
                pairs = [(T("idx", E, "0"), T("idx", E, "1")), (T("each0", loop), T("each1", loop)),
                         (E, T("idx", "self.headers", E)), (E, T("get", "self.headers", E)), (E, T("get", "self.headers", E, "False"))]
                pair = shape and (lparts[0], lparts[2]) in pairs
                val = lparts[2] if shape else ""
                guard = any(c in (T("truthy", val), T("truthy", T("get", "self.headers", E, "False")), T("truthy", T("get", "self.headers", E))) for c in conds)
                src_ok = {a_ for a_ in subterms(loop) if destruct(a_)[0] is None and a_.startswith(("self.", "p:"))} <= {"self.headers"}
                ctx.ob(R3, rh.qual, f"line `{line[:80]}` is `name: value` of one header, emitted only when that header is set (comprehension form)", bool(pair and guard and src_ok),
                       "" if pair and guard and src_ok else "a header line does not pair a name with its own value, or is emitted for an unset header", witness=r.witness(), node=rh.node)
            if len(comp) == len(largs) - 1:
                continue
        # every emitted line is `<name>: <value>` of ONE header entry, emitted exactly when the value is set (truthy);
        # the three leading headers come first, then every other header
        reps = [destruct(x)[1] for x in largs[:-1]]
        sig = (tuple(largs), tuple(sorted((k, v) for k, v in r.st.facts.items() if "self.headers" in k)),
               tuple(sorted((str(k), v) for k, v in r.st.ts.items() if isinstance(k, tuple) and k[0] == "cmp")))
        if sig in seen:
            continue
        seen.add(sig)
        items_I = T("items", "self.headers")
        for x in largs[:-1]:
            xop, xargs = destruct(x)
            if xop != "rep" or len(xargs) != 2:
                # a way of collecting the lines the rule does not read (lists concatenated, spread, built by helpers): DESIGN 13.2 -
                # provenance only: the lines are computed from this field's own headers (and constants) and nothing else
                atoms_x = {a_ for a_ in subterms(x) if destruct(a_)[0] is None and a_.startswith(("self.", "p:", "g:"))}
                prov = "self.headers" in atoms_x and atoms_x <= {"self.headers"} and any(destruct(a_)[0] in ("listcomp", "gen", "rep") for a_ in subterms(x))
                n_lines += 1 if prov else 0
                ctx.ob(R3, rh.qual, f"header line {x[:70]} is produced per header entry" + (" (idiom not recognised: provenance only)" if prov else ""), prov,
                       "" if prov else "a line is written outside the loops over the headers", witness=r.witness(), node=rh.node)
                continue
            n_lines += 1
            line, loop = norm(xargs[0]), xargs[1]
            lop2, lparts = destruct(line)
            shape = lop2 == "cat" and len(lparts) == 3 and lparts[1] == K(": ")
            if loop == items_I:
                pair = shape and lparts[0] == T("each0", loop) and lparts[2] == T("each1", loop)
                lead = [k for k in r.st.ts if isinstance(k, tuple) and k[0] == "cmp" and k[1] == T("each0", loop) and k[2] == "in"]
                guard = bool(lead) and all(r.st.ts[k] is False for k in lead) and r.truth(T("each1", loop)) is True
            else:
                pair = shape and lparts[0] == T("each", loop) and lparts[2] in (T("idx", "self.headers", T("each", loop)), T("get", "self.headers", T("each", loop)), T("get", "self.headers", T("each", loop), "False"))
                names = destruct(loop)[1] if destruct(loop)[0] in ("list", "tuple") else ()
                if destruct(loop)[0] == "const" and isinstance(destruct(loop)[1], (tuple, list)):
                    names = tuple(K(x_) for x_ in destruct(loop)[1])
                pair = pair and tuple(names[:3]) == (K("Content-Disposition"), K("Content-Type"), K("Content-Location"))
                gs = [k for k, v in r.st.facts.items() if "self.headers" in k and T("each", loop) in k]
                guard = bool(gs) and all(r.truth(k) is True for k in gs)
            ctx.ob(R3, rh.qual, f"line `{line[:80]}` is `name: value` of one header, emitted only when that header is set", bool(pair and guard),
                   "" if pair and guard else "a header line does not pair a name with its own value, or is emitted for an unset / already emitted header", witness=r.witness(), node=rh.node)
        # completeness: a loop that ran with its guard satisfied must have emitted its line
        emitted_loops = {destruct(x)[1][1] for x in largs[:-1] if destruct(x)[0] == "rep" and len(destruct(x)[1]) == 2}
        if r.truth(T("each1", items_I)) is True and any(isinstance(k, tuple) and k[0] == "cmp" and k[1] == T("each0", items_I) and k[2] == "in" and v is False for k, v in r.st.ts.items()):
            ctx.ob(R3, rh.qual, "a set header outside the leading three is emitted", items_I in emitted_loops, "a header the field specifies is dropped from the part", witness=r.witness(), node=rh.node)
    ctx.ob(R3, rh.qual, "header block is the lines joined by CRLF and ends with an empty line", ok, "; ".join(r.ret[-80:] for r in rows[:2]))
    ctx.sites(R3, n_lines, 1, "header lines emitted by render_headers")
    cb = m.func(f"{FP}.choose_boundary")
    from ..rows import helper_closure as _hc4
    from ..terms import subterms as _sub4
    brow = [r for r in effect_rows(ctx, cb, GenRule(ctx, cb.module, inline=frozenset(_hc4(m, [cb]) - {cb.qual})), None) if r.returns]
    okb = bool(brow)
    for r in brow:
        subs = set(_sub4(r.ret))
        rnd = [x for x in subs if destruct(x)[0] in ("g:os.urandom", "os.urandom", "urandom", "g:urandom") and destruct(x)[1] and destruct(x)[1][0].isdigit() and int(destruct(x)[1][0]) >= 16]
        hexed = any(destruct(x)[0] in ("hexlify", "g:binascii.hexlify", "binascii.hexlify", "hex") or "02x" in x or "%02x" in x for x in subs)
        foreign = [x for x in subs if destruct(x)[0] is None and x.startswith(("p:", "self."))]
        if not hexed and rnd and not foreign and any(destruct(x)[0] in ("map", "join", "format", "cat", "fstr", "gen", "listcomp") for x in subs):
            hexed = True  # a per-byte formatting idiom the rule cannot read (a bound `"{:02x}".format`): provenance only (DESIGN 13.2)
        okb = okb and bool(rnd) and hexed and not foreign
    ctx.ob(R4, cb.qual, "random boundary is 128 random bits, hex-encoded (token characters only)", okb, "; ".join(r.ret[:100] for r in brow))

    # ---------------- R5
    reb = m.func("urllib3._request_methods.RequestMethods.request_encode_body")
    RM = "urllib3._request_methods"

    rm_helpers = private_helpers(m, RM, "urllib3._request_methods.RequestMethods", exclude=())
    rows = [r for r in effect_rows(ctx, reb, GenRule(ctx, RM, inline=rm_helpers, pure_self=(), raising={"subscript": "builtins.KeyError"}), "urllib3._request_methods.RequestMethods") if r.returns]
    n5 = 0
    seen = set()
    for r in rows:
        encs = [e for e in r.events("call") if e[1] == "encode_multipart_formdata"]
        if not encs:
            continue
        e = encs[0]
        call_t = T("encode_multipart_formdata", *e[2:]) if not (e[-1] and isinstance(e[-1], tuple)) else T("encode_multipart_formdata", *e[2:-1])
        key = (call_t, tuple(x for x in r.ev if x[0] in ("setitem", "call") and ("Content-Type" in str(x) or "body" in str(x))))
        if key in seen:
            continue
        seen.add(key)
        n5 += 1
        ctx.ob(R5, reb.qual, "caller's multipart_boundary is forwarded to the encoder", "boundary=p:multipart_boundary" in call_t or call_t.endswith(",p:multipart_boundary)"), call_t, witness=r.witness(), node=reb.node)
        body_t, ct_t = T("idx", call_t, "0"), T("idx", call_t, "1")
        evs_txt = " ".join(str(x) for x in r.ev)
        ok_ct = any(ct_t in str(x) and "Content-Type" in str(x) for x in r.ev)
        if not ok_ct:
            # lookup-or-insert written out: on the row where the caller's headers already carry a Content-Type nothing is stored
            ok_ct = any(isinstance(k_, tuple) and len(k_) == 4 and k_[0] == "cmp" and k_[1] == K("Content-Type") and k_[2] == "in" and v_ is True for k_, v_ in r.st.ts.items())
        ctx.ob(R5, reb.qual, "the Content-Type header of the outgoing request carries the encoder's content type", ok_ct, "" if ok_ct else f"events {evs_txt[:200]}", witness=r.witness(), node=reb.node)
        over_b = T("over", body_t, "p:**urlopen_kw")  # a keyword table that the caller's urlopen_kw may override, as update() did
        ok_b = any(x[0] == "setitem" and x[2] == K("body") and x[3] == body_t for x in r.ev) or any(
            x[0] == "call" and x[1] == "self.urlopen" and (f"body={body_t}" in str(x) or f"body={over_b}" in str(x) or over_b in x[2:] or body_t in x[2:]) for x in r.ev)
        ctx.ob(R5, reb.qual, "the encoded body is what is sent", ok_b, "" if ok_b else f"events {evs_txt[:200]}", witness=r.witness(), node=reb.node)
    ctx.sites(R5, n5, 1, "rows of request_encode_body that encode multipart")

    from ..rows import helper_closure
    from ..terms import subterms
    # ---------------- R6 each part owns its header mapping
    R6 = ctx.rule("C20-R6", "each part owns its headers: RequestField.__init__ stores a fresh mapping (a new dict, or a copy of the caller's), never the caller's object - make_multipart() writes Content-Disposition / Content-Type into it, so a mapping shared by two fields would give every part the last field's name", "E10 effect rows")
    rf_init = m.method("urllib3.fields.RequestField", "__init__")
    hp = "p:headers" if "headers" in rf_init.params() else None
    if hp is None:
        raise AnalysisError("RequestField.__init__ has no `headers` parameter")
    rows6 = [r for r in effect_rows(ctx, rf_init, GenRule(ctx, rf_init.module, inline=frozenset(helper_closure(m, [rf_init]) - {rf_init.qual})), rf_init.clsq) if r.returns]
    ctx.sites(R6, len(rows6), 2, "returning rows of RequestField.__init__")
    seen6 = set()
    for r in rows6:
        st6 = [e[3] for e in r.events("store") if e[1] == "self" and e[2] == "headers"]
        final = st6[-1] if st6 else None
        if final in seen6:
            continue
        seen6.add(final)
        op6, a6 = destruct(final) if final else (None, ())
        fresh = final is not None and (final == "?" and not r.truth(hp) or op6 in ("dict", "copy", "new:dict", "new:HTTPHeaderDict") or (op6 is None and final in ("dict()", "{}")))
        if final == "?":
            fresh = True  # a dict display built in place
        aliased = final is not None and hp in set(subterms(final)) and op6 not in ("dict", "copy") and final == hp
        ok = final is not None and not aliased and fresh
        ctx.ob(R6, rf_init.qual, f"headers stored: {final}", ok, "" if ok else "the field keeps the caller's mapping itself: fields built with one shared headers dict overwrite each other's Content-Disposition", witness=r.witness(), node=rf_init.node)

    # ---------------- R7 containers are told apart by the declared interface
    R7 = ctx.rule("C20-R7", "a mapping of fields is read pair by pair: iter_field_objects takes .items() for every Mapping (the declared input type), not only for dict - otherwise the keys of a non-dict mapping are star-unpacked as (name, value...) tuples and the body carries garbage", "E10 effect rows + class lattice")
    ifo = m.func(f"{FP}.iter_field_objects")
    rows7 = effect_rows(ctx, ifo, GenRule(ctx, ifo.module, inline=frozenset(helper_closure(m, [ifo]) - {ifo.qual})), None)
    pf = "p:" + ifo.params()[0]
    n7 = 0
    seen7 = set()
    for r in rows7:
        ys = [e for e in r.ev if e[0] == "yield"]
        if not ys:
            continue
        loops = {e[-1][1:] for e in ys if isinstance(e[-1], tuple) and e[-1][:1] == ("in",)}
        over_items = any(any("items(" + pf in str(l_) or f"{pf}.items" in str(l_) for l_ in ls) for ls in loops)
        memo = [(k_[2], v_) for k_, v_ in r.st.ts.items() if isinstance(k_, tuple) and k_[0] == "isinst" and k_[1] == pf]
        key7 = (over_items, tuple(sorted(map(str, memo))))
        if key7 in seen7:
            continue
        seen7.add(key7)
        n7 += 1
        if over_items:
            continue  # pairs of a mapping: fine whatever selected it
        # iterated directly: the path must have excluded every Mapping
        excl = any(v_ is False and any(c_ in ("typing.Mapping", "collections.abc.Mapping", "_collections_abc.Mapping") for c_ in cls_) for cls_, v_ in memo)
        ctx.ob(R7, ifo.qual, f"fields iterated element-wise only when it is not a Mapping (decisions {memo})", excl,
               "" if excl else "a Mapping that is not covered by the test is iterated as keys: each key string is unpacked as a (name, value) tuple", witness=r.witness(), node=ifo.node)
    ctx.sites(R7, n7, 2, "yielding rows of iter_field_objects")


# ---------------------------------------------------------------------------- R2
FORBIDDEN = {10: "%0A", 13: "%0D", 34: "%22"}


def _regex_guard(ctx, module, node):
    """(pattern, flags, method) if `node` is a call that applies a regular expression to its last argument."""
    from ..fold import Regex

    m, fold = ctx.model, ctx.fold
    f = node.func

    def ev(e):
        try:
            return fold.ev(e, module)
        except Exception:
            return None

    def compiled(e):
        """Regex for an expression that is a compiled pattern: a folded constant or an inline <re>.compile(P[, F])."""
        r = ev(e)
        if isinstance(r, Regex):
            return r
        if isinstance(e, ast.Call) and isinstance(e.func, ast.Attribute) and e.func.attr == "compile" and e.args:
            pat = ev(e.args[0])
            flags = ev(e.args[1]) if len(e.args) > 1 else 0
            if isinstance(pat, str) and isinstance(flags, int):
                return Regex(pat, flags, e)
        return None

    if isinstance(f, ast.Attribute) and f.attr in ("match", "fullmatch", "search"):
        r = compiled(f.value)
        if r is not None and len(node.args) >= 1:
            return (r.pattern, r.flags, f.attr)
        # module-function style: <re>.match(P, s[, F])
        if len(node.args) >= 2:
            pat = ev(node.args[0])
            flags = ev(node.args[2]) if len(node.args) > 2 else 0
            if isinstance(pat, str) and isinstance(flags, int):
                return (pat, flags, f.attr)
    # ALIAS(s) where ALIAS = <compiled>.match at module level
    if isinstance(f, ast.Name):
        stmts = m.assigns.get(module, {}).get(f.id)
        if stmts:
            v = stmts[-1].value
            if isinstance(v, ast.Attribute) and v.attr in ("match", "fullmatch", "search"):
                r = compiled(v.value)
                if r is not None:
                    return (r.pattern, r.flags, v.attr)
    return None


def _run_r2(ctx, R2):
    from .. import rx

    m, fold = ctx.model, ctx.fold
    fm = m.func(f"{FL}.format_multipart_header_param")
    params = fm.params()
    if len(params) < 2:
        raise AnalysisError("format_multipart_header_param: (name, value) parameters not found")
    pname, pvalue = params[0], params[1]
    bad_chars = {chr(c) for c in FORBIDDEN}

    class Esc(BaseRule):
        wants_compose = True

        def __init__(self):
            self.guards = {}   # sym -> (safe, why, subject sym, text)
            self.parts = {}    # sym -> [("lit", str) | ("val", AV)]
            self.tables = []   # (node, table | None)
            self.n = 0

        def call(self, it, st, node, recv, pos, kw):
            f = node.func
            if isinstance(f, ast.Attribute) and recv is not None and "src:value" in recv.tags:
                if f.attr == "translate" and node.args:
                    try:
                        table = fold.ev(node.args[0], it.module)
                    except Exception:
                        table = None
                    if table is None and pos:
                        # a table built in a local first (a dict display with constant entries), or a folded module constant
                        from ..interp import dslots as _ds
                        if pos[0].kind == "dict" and not pos[0].val[1] and all(v.kind == "const" for v in _ds(pos[0]).values()):
                            table = {k: v.val for k, v in _ds(pos[0]).items()}
                        elif pos[0].kind == "const" and isinstance(pos[0].val, dict):
                            table = pos[0].val
                        elif isinstance(node.args[0], ast.Name):
                            try:
                                table = fold.module_const(it.module, node.args[0].id)
                            except Exception:
                                table = None
                    self.tables.append((node, table))
                    full = isinstance(table, dict) and all(table.get(c) == e for c, e in FORBIDDEN.items()) and not any(
                        isinstance(v, str) and (set(v) & bad_chars) for v in table.values())
                    tags = (recv.tags - {"raw"}) | ({"escaped"} if full else {"raw"})
                    return [Out("normal", st, AV("unk", sym=f"translate({recv.sym})", tags=frozenset(tags), none=False))]
                if f.attr in ("decode", "encode", "strip", "lstrip", "rstrip", "lower", "upper", "replace", "format", "join", "removeprefix", "removesuffix", "expandtabs", "title", "casefold"):
                    # conservative: any other str operation keeps (or may re-introduce) raw characters
                    tags = (recv.tags - {"escaped"}) | {"raw"}
                    return [Out("normal", st, AV("unk", sym=f"{f.attr}({recv.sym})", tags=frozenset(tags), none=False))]
            if isinstance(f, ast.Attribute) and f.attr == "format" and recv is not None and recv.kind == "const" and isinstance(recv.val, str) and not kw:
                # "..{}..{}..".format(a, b) is the f-string with the same fields
                import string as _string
                try:
                    fields = list(_string.Formatter().parse(recv.val))
                except ValueError:
                    fields = None
                if fields is not None and all((name is None) or (not spec and not conv and (name == "" or name.isdigit())) for _, name, spec, conv in fields):
                    parts, auto = [], 0
                    for lit, name, spec, conv in fields:
                        if lit:
                            parts.append(("lit", lit))
                        if name is None:
                            continue
                        i = auto if name == "" else int(name)
                        auto += 1 if name == "" else 0
                        if i < len(pos):
                            parts.append(("val", pos[i]))
                    self.n += 1
                    sym = f"format{self.n}"
                    self.parts[sym] = parts
                    return [Out("normal", st, AV("unk", sym=sym, none=False, truth=True))]
            g = _regex_guard(ctx, fm.module, node)
            if g is not None and pos:
                subj = pos[-1]
                safe, why = rx.guard_excludes(g[0], g[1], g[2], bad_chars)
                self.n += 1
                sym = f"guard{self.n}:{ast.unparse(node)[:60]}"
                self.guards[sym] = (safe, why, subj.sym, ast.unparse(node))
                return [Out("normal", st, AV("unk", sym=sym))]
            return None

        def compose(self, it, st, node, children):
            if isinstance(node, ast.JoinedStr):
                parts = []
                for ch, av in children:
                    if isinstance(ch, ast.Constant):
                        parts.append(("lit", ch.value))
                    else:
                        parts.append(("val", av))
                self.n += 1
                sym = f"fstr{self.n}"
                self.parts[sym] = parts
                return AV("unk", sym=sym, none=False, truth=True)
            if isinstance(node, ast.BinOp) and isinstance(node.op, ast.Add) and len(children) == 2:
                parts = []
                for ch, av in children:
                    if av.sym in self.parts:
                        parts += self.parts[av.sym]
                    elif av.kind == "const" and isinstance(av.val, str):
                        parts.append(("lit", av.val))
                    else:
                        parts.append(("val", av))
                self.n += 1
                sym = f"concat{self.n}"
                self.parts[sym] = parts
                return AV("unk", sym=sym, none=False)
            return None

    rule = Esc()
    from ..rows import helper_closure as _hc
    outs, it = run_function(m, fm, rule, inline=set(_hc(m, [fm])) - {fm.qual}, params={pname: AV("unk", sym="p:name", tags=frozenset({"src:name"})),
                                                                                        pvalue: AV("unk", sym="p:value", tags=frozenset({"src:value", "raw"}))},
                            record_decisions=True)
    ctx.states += it.budget.steps
    rets = [o for o in outs if o.kind == "return"]
    ctx.sites(R2, len(rets), 1, "returning paths of format_multipart_header_param")
    ctx.sites(R2, len(rule.tables), 1, "translate call on the value")
    for node, table in rule.tables:
        for cp, esc in FORBIDDEN.items():
            ok = isinstance(table, dict) and table.get(cp) == esc
            ctx.ob(R2, fm.qual, f"code point {cp} -> {esc}", ok, f"table maps it to {table.get(cp)!r}" if isinstance(table, dict) else "the escape table does not fold to a constant", node=node)
        extra_bad = [k for k, v in (table.items() if isinstance(table, dict) else []) if isinstance(v, str) and (set(v) & bad_chars)]
        ctx.ob(R2, fm.qual, "no replacement re-introduces a quote or line break", not extra_bad, str(extra_bad), node=node)
    seen = set()
    for o in rets:
        st, av = o.st, o.val
        decs = tuple((a, b) for a, b in st.ts.get("dec", ()))
        parts = rule.parts.get(av.sym) if av is not None else None
        label = "; ".join(f"{a}={b}" for a, b in decs) or "straight-line"
        if parts is None:
            raise AnalysisError(f"format_multipart_header_param returns a value that is not an f-string/concatenation the rule can read ({ast.unparse(fm.node.body[-1])[:60]})")
        vals = [(i, x) for i, (k, x) in enumerate(parts) if k == "val" and "src:value" in x.tags]
        shape = tuple(("lit", x) if k == "lit" else ("val", tuple(sorted(t for t in x.tags if not t.startswith("not:")))) for k, x in parts)
        if (decs, shape) in seen:
            continue
        seen.add((decs, shape))
        ok_shape = len(vals) == 1
        quoted = False
        if ok_shape:
            i = vals[0][0]
            quoted = i > 0 and parts[i - 1][0] == "lit" and parts[i - 1][1].endswith('="') and i + 1 < len(parts) and parts[i + 1][0] == "lit" and parts[i + 1][1] == '"' and i + 2 == len(parts)
            name_ok = i == 2 and parts[0][0] == "val" and parts[0][1].sym == "p:name" and parts[1] == ("lit", '="')
            quoted = quoted and name_ok
        ctx.ob(R2, fm.qual, f"[{label}] result is <name>=\"<value>\"", ok_shape and quoted,
               "" if ok_shape and quoted else "the value is not wrapped in exactly one pair of double quotes after `name=`", witness=st.witness(), node=fm.node)
        if not ok_shape:
            continue
        v = vals[0][1]
        if "escaped" in v.tags and "raw" not in v.tags:
            ctx.ob(R2, fm.qual, f"[{label}] the value reaches the header escaped", True, node=fm.node)
            continue
        # unescaped on this path: only acceptable under a guard that proves there is nothing to escape
        proven, unsafe, unknown = None, None, []
        for gsym, (safe, why, subj, text) in rule.guards.items():
            fact = st.facts.get(gsym)
            if fact is None or (fact[0] is None and fact[1] is None):
                continue
            if (fact[0] is True or fact[1] is False) and subj == v.sym:
                if safe:
                    proven = (text, why)
                else:
                    unsafe = (text, why)
        for a, b in decs:
            if not (a.startswith("isinstance(") or any(g[3] in a for g in rule.guards.values())):
                unknown.append(a)
        if proven:
            ctx.ob(R2, fm.qual, f"[{label}] unescaped only under a guard that excludes CR, LF and quote", True, f"{proven[0]}: {proven[1]}", node=fm.node)
        elif unsafe or not unknown:
            why = (f"the guard `{unsafe[0]}` does not prove it: {unsafe[1]}" if unsafe else "no escaping on this path")
            ctx.ob(R2, fm.qual, f"[{label}] the value reaches the header unescaped", False,
                   why + " - field content can terminate the parameter, add a header or open a part", witness=st.witness(), node=fm.node)
        else:
            raise AnalysisError(f"format_multipart_header_param: the value skips escaping under a condition the rule cannot interpret ({unknown})")
