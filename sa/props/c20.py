"""C20 - multipart form encoding is structurally sound for any field content."""
from __future__ import annotations

import ast

from .. import astq
from ..events import outcome_name, run_function
from ..interp import AV, UNK, BaseRule, Out, const
from ..model import AnalysisError

FP = "urllib3.filepost"
FL = "urllib3.fields"
RF = f"{FL}.RequestField"


def _classify_write(arg, boundary_names):
    """Shape of the value written to the body."""
    a = arg
    if isinstance(a, ast.Call) and isinstance(a.func, ast.Attribute) and a.func.attr == "encode":
        a = a.func.value
    if isinstance(a, ast.JoinedStr):
        lits = [v.value for v in a.values if isinstance(v, ast.Constant)]
        fmts = [astq.text(v.value) for v in a.values if isinstance(v, ast.FormattedValue)]
        if len(fmts) == 1 and fmts[0] in boundary_names:
            if lits == ["--", "\r\n"]:
                return "delim"
            if lits == ["--", "--\r\n"]:
                return "close"
        return "fstring:" + astq.text(a)[:40]
    if isinstance(a, ast.Constant) and a.value in (b"\r\n", "\r\n"):
        return "crlf"
    if isinstance(a, ast.Call) and isinstance(a.func, ast.Attribute) and a.func.attr == "render_headers":
        return "headers"
    if isinstance(a, ast.Name):
        return f"name:{a.id}"
    return "other:" + astq.text(a)[:40]


class LayoutRule(BaseRule):
    def __init__(self, boundary_names):
        self.bn = boundary_names
        self.viol = []
        self.iters = 0

    def _check_iter(self, st, node):
        seq = st.ts.get("iter_seq")
        if seq is None:
            return
        ok = len(seq) == 4 and seq[0] == "delim" and seq[1] == "headers" and seq[2].startswith("data") and seq[3] == "crlf"
        if not ok:
            self.viol.append((f"one part is written as {seq} instead of (delimiter, headers, data, CRLF)", st, node))

    def for_iter(self, it, st, stmt, itv):
        self._check_iter(st, stmt)
        self.iters += 1
        s = st.copy()
        s.ts["iter_seq"] = ()
        it.assign(s, stmt.target, AV("obj", "field", truth=True, none=False))
        e = st.copy()
        e.ts.pop("iter_seq", None)
        e.ts["after"] = ()
        return [(s, True), (e, False)]

    def loop_break(self, it, stmt, st):
        self.viol.append(("the loop over the fields can stop early", st, stmt))

    def call(self, it, st, node, recv, pos, kw):
        t = ast.unparse(node.func)
        f = node.func
        if isinstance(f, ast.Attribute) and f.attr == "write" and node.args:
            base = astq.text(f.value)
            kind = _classify_write(node.args[0], self.bn)
            if kind.startswith("name:"):
                av = pos[0]
                via_writer = base.startswith("writer(")
                # data: decide str vs bytes by the isinstance facts recorded on the path
                kind = "data:" + ("utf8-writer" if via_writer else "raw")
                isstr = st.ts.get(("isinst", av.sym, ("builtins.str",))) if av.sym else None
                if av.typ == "builtins.str":
                    isstr = True
                if isstr is not False and not via_writer:
                    self.viol.append(("data that may be str is written without UTF-8 encoding", st, node))
                if isstr is not True and via_writer:
                    self.viol.append(("data that may be bytes is passed through the text writer", st, node))
            elif kind == "headers":
                if not base.startswith("writer("):
                    kind = "headers-raw"
            s = st.copy()
            if "iter_seq" in s.ts:
                s.ts["iter_seq"] = s.ts["iter_seq"] + (kind,)
            elif "after" in s.ts:
                s.ts["after"] = s.ts["after"] + (kind,)
            else:
                s.ts["before"] = s.ts.get("before", ()) + (kind,)
            s.log(node, f"WRITE {kind}")
            return [Out("normal", s, UNK)]
        if t == "str" and pos:
            return [Out("normal", st, AV("unk", sym="str-of-int", typ="builtins.str"))]
        if t in ("BytesIO", "writer", "choose_boundary", "iter_field_objects", "body.getvalue"):
            if t == "choose_boundary":
                return [Out("normal", st, AV("unk", sym="boundary-random", truth=True, none=False))]
            return [Out("normal", st, AV("unk", none=False))]
        if t.endswith(".render_headers"):
            return [Out("normal", st, AV("unk", sym="rendered"))]
        return None

    def getattr(self, it, st, node, base):
        if base.kind == "obj" and base.val == "field" and node.attr == "data":
            return AV("unk", sym="data")
        return None


def run(ctx):
    m, fold = ctx.model, ctx.fold
    ctx.assume("A1")
    ctx.decline("parsing the produced body back with an independent multipart parser (byte-level round trip)")

    R1 = ctx.rule("C20-R1", "sanitizer on every flow: field name and filename reach a header only through _render_parts -> _render_part -> the header formatter, whose default is format_multipart_header_param", "E6")
    R2 = ctx.rule("C20-R2", "escape table: CR, LF and double quote are percent-encoded and the value is wrapped in double quotes", "E2")
    R3 = ctx.rule("C20-R3", "layout: per field exactly delimiter line, rendered headers, data, CRLF - then the closing delimiter; str data UTF-8 encoded, bytes unchanged; header block ends with an empty line", "E4")
    R4 = ctx.rule("C20-R4", "one boundary: the same definition reaches every delimiter and the returned content type", "E6")
    R5 = ctx.rule("C20-R5", "request_encode_body sends the body with the content type the encoder returned", "E6")

    cls = m.cls(RF)
    # ---------------- R1
    n = 0
    for name, fi in sorted(cls.methods.items()):
        for node in astq.walk_fn(fi.node):
            if isinstance(node, ast.Attribute) and astq.is_self_attr(node) and node.attr in ("_name", "_filename") and isinstance(node.ctx, ast.Load):
                n += 1
                # must sit inside the argument of self._render_parts(...)
                ok = False
                for a in astq.ancestors(node):
                    if isinstance(a, ast.Call) and astq.call_text(a) == "self._render_parts":
                        ok = True
                        break
                ctx.ob(R1, fi.qual, f"read of self.{node.attr} in `{astq.text(astq.stmt_of(node))[:60]}`", ok,
                       "" if ok else "the raw name/filename is used outside the escaping route: quotes or CR/LF in it can break out of the parameter", node=node)
    ctx.sites(R1, n, 2, "reads of _name/_filename")
    rp = m.method(RF, "_render_parts")
    appends = [c for c in astq.calls(rp.node) if isinstance(c.func, ast.Attribute) and c.func.attr == "append"]
    ctx.sites(R1, len(appends), 1, "append in _render_parts")
    for c in appends:
        ok = c.args and isinstance(c.args[0], ast.Call) and astq.call_text(c.args[0]) == "self._render_part" and len(c.args[0].args) == 2
        ctx.ob(R1, rp.qual, f"`{astq.text(c)}` renders through _render_part", bool(ok), "" if ok else "a header part is assembled without the formatter", node=c)
    rets = [r for r in astq.walk_fn(rp.node) if isinstance(r, ast.Return)]
    plist = {astq.text(a.func.value) for a in appends}
    ok = all(isinstance(r.value, ast.Call) and isinstance(r.value.func, ast.Attribute) and r.value.func.attr == "join" and astq.text(r.value.args[0]) in plist for r in rets) and rets and len(plist) == 1
    ctx.ob(R1, rp.qual, "result is the join of the rendered parts only", bool(ok))
    r1 = m.method(RF, "_render_part")
    rets = [r for r in astq.walk_fn(r1.node) if isinstance(r, ast.Return)]
    p = r1.params()
    ok = len(rets) == 1 and isinstance(rets[0].value, ast.Call) and astq.call_text(rets[0].value) == "self.header_formatter" \
        and [astq.text(a) for a in rets[0].value.args] == p[:2]
    ctx.ob(R1, r1.qual, "_render_part delegates (name, value) to the header formatter", ok, astq.text(rets[0]) if rets else "")
    init = m.method(RF, "__init__")
    stores = [(n.value, n) for n in astq.walk_fn(init.node) if isinstance(n, ast.Assign) and astq.is_self_attr(n.targets[0], "header_formatter")]
    ctx.sites(R1, len(stores), 1, "header_formatter stores")
    dflt = [v for v, n in stores if not (isinstance(v, ast.Name) and astq.is_param(init.node, v.id))]
    ok = len(dflt) == 1 and m.resolve_name(init.module, dflt[0]) == f"{FL}.format_multipart_header_param"
    ctx.ob(R1, init.qual, "default header formatter is format_multipart_header_param", ok, "; ".join(astq.text(v) for v in dflt))
    mm = m.method(RF, "make_multipart")
    cd = [n for n in astq.walk_fn(mm.node) if isinstance(n, ast.Assign) and isinstance(n.targets[0], ast.Subscript)
          and isinstance(n.targets[0].slice, ast.Constant) and n.targets[0].slice.value == "Content-Disposition"]
    ctx.sites(R1, len(cd), 1, "Content-Disposition store")
    for nnode in cd:
        srcs = astq.sources_of(mm.node, nnode.value)
        txt = " ".join(astq.text(s) for s in srcs)
        ok = "self._render_parts(" in txt and "self._name" in txt and "self._filename" in txt
        ctx.ob(R1, mm.qual, "Content-Disposition is built from _render_parts((name, filename))", ok, txt[:120], node=nnode)

    # ---------------- R2 (path-sensitive: the value reaches the result escaped on EVERY path)
    _run_r2(ctx, R2)

    # ---------------- R3 / R4
    enc = m.func(f"{FP}.encode_multipart_formdata")
    bparam = "boundary"
    if bparam not in enc.params():
        raise AnalysisError("encode_multipart_formdata has no boundary parameter")
    rule = LayoutRule({bparam})
    outs, it = run_function(m, enc, rule, params={bparam: AV("unk", sym="boundary-arg")}, record_decisions=True)
    ctx.states += it.budget.steps
    if not rule.iters:
        raise AnalysisError("C20-R3: loop over the fields not found")
    for text, st, node in rule.viol:
        ctx.ob(R3, enc.qual, text, False, "", witness=st.witness(), node=node)
    nn = 0
    for o in outs:
        if o.kind != "return":
            continue
        nn += 1
        rule._check_iter(o.st, enc.node)
        after = o.st.ts.get("after", ())
        before = o.st.ts.get("before", ())
        ok = after == ("close",) and before == ()
        ctx.ob(R3, enc.qual, f"after the loop: {after}; before: {before}", ok,
               "" if ok else "the body does not end with exactly one closing delimiter (or something precedes the first delimiter)", witness=o.st.witness(), node=enc.node)
    ctx.sites(R3, nn, 1, "returning paths of encode_multipart_formdata")
    if not [v for v in rule.viol]:
        ctx.ob(R3, enc.qual, "every part is (delimiter, headers, data, CRLF); str via UTF-8 writer, bytes raw", True)
    # the text writer is UTF-8
    w = fold.try_module_const(FP, "writer")
    wstmt = m.assigns.get(FP, {}).get("writer")
    ok = bool(wstmt) and astq.text(wstmt[-1].value).replace("'", '"') == 'codecs.lookup("utf-8")[3]'
    ctx.ob(R3, FP, "text writer is the UTF-8 stream writer", ok, astq.text(wstmt[-1].value) if wstmt else "missing")
    rh = m.method(RF, "render_headers")
    body = [s for s in rh.node.body if not isinstance(s, ast.Expr) or not isinstance(getattr(s, "value", None), ast.Constant)]
    ok = False
    if len(body) >= 2 and isinstance(body[-1], ast.Return) and isinstance(body[-1].value, ast.Call) and isinstance(body[-1].value.func, ast.Attribute) \
            and body[-1].value.func.attr == "join" and getattr(body[-1].value.func.value, "value", None) == "\r\n" and isinstance(body[-2], ast.Expr) and isinstance(body[-2].value, ast.Call):
        ln_ = astq.text(body[-1].value.args[0])
        ap = body[-2].value
        ok = astq.call_text(ap) == f"{ln_}.append" and getattr(ap.args[0], "value", None) == "\r\n"
    ctx.ob(R3, rh.qual, "header block ends with an empty line", ok, "; ".join(astq.text(s)[:50] for s in body[-2:]))

    # R4
    assigns = [n for n in astq.walk_fn(enc.node) if isinstance(n, ast.Assign) and any(isinstance(t, ast.Name) and t.id == bparam for t in n.targets)]
    for a in assigns:
        g = astq.enclosing(a, ast.If)
        in_loop = astq.enclosing(a, (ast.For, ast.While)) is not None
        ok = g is not None and astq.text(g.test) == f"{bparam} is None" and not in_loop and astq.call_text(a.value) == "choose_boundary" if isinstance(a.value, ast.Call) else False
        ctx.ob(R4, enc.qual, f"boundary (re)definition `{astq.text(a)}`", ok,
               "" if ok else "the boundary changes between delimiters or between body and content type", node=a)
    uses = []
    for node in astq.walk_fn(enc.node):
        if isinstance(node, ast.JoinedStr):
            fmts = [astq.text(v.value) for v in node.values if isinstance(v, ast.FormattedValue)]
            lits = "".join(v.value for v in node.values if isinstance(v, ast.Constant))
            uses.append((lits, fmts, node))
    ctx.sites(R4, len(uses), 3, "boundary interpolations")
    for lits, fmts, node in uses:
        ok = fmts == [bparam]
        ctx.ob(R4, enc.qual, f"`{astq.text(node)[:50]}` interpolates the one boundary", ok, node=node)
    ct = [u for u in uses if "boundary=" in u[0]]
    ok = len(ct) == 1 and ct[0][0] == "multipart/form-data; boundary="
    ctx.ob(R4, enc.qual, "content type is multipart/form-data; boundary=<the boundary>", ok)
    rets = [r for r in astq.walk_fn(enc.node) if isinstance(r, ast.Return)]
    for r in rets:
        ok = isinstance(r.value, ast.Tuple) and len(r.value.elts) == 2
        if ok:
            srcs = astq.sources_of(enc.node, r.value.elts[1])
            ok = len(srcs) == 1 and ct and srcs[0] is ct[0][2]
            bodies = set(astq.assigned_from(enc.node, lambda v: isinstance(v, ast.Call) and astq.call_text(v) == "BytesIO"))
            e0 = r.value.elts[0]
            ok = ok and isinstance(e0, ast.Call) and isinstance(e0.func, ast.Attribute) and e0.func.attr == "getvalue" and astq.text(e0.func.value) in bodies
        ctx.ob(R4, enc.qual, "returns (body bytes, that content type)", bool(ok), astq.text(r), node=r)
    cb = m.func(f"{FP}.choose_boundary")
    txt = astq.text(cb.node)
    ok = "os.urandom(16)" in txt and "hexlify" in txt
    ctx.ob(R4, cb.qual, "random boundary is 128 random bits, hex-encoded (token characters only)", ok)

    # ---------------- R5
    reb = m.func("urllib3._request_methods.RequestMethods.request_encode_body")
    calls = [c for c in astq.calls(reb.node) if astq.call_text(c) == "encode_multipart_formdata"]
    ctx.sites(R5, len(calls), 1, "encode_multipart_formdata call")
    for c in calls:
        st = astq.stmt_of(c)
        ok = isinstance(st, ast.Assign) and isinstance(st.targets[0], ast.Tuple) and len(st.targets[0].elts) == 2
        body_n, ct_n = ([astq.text(e) for e in st.targets[0].elts] if ok else (None, None))
        ctx.ob(R5, reb.qual, "(body, content_type) are taken from one encoder call", ok, astq.text(st)[:80], node=c)
        b = astq.kwarg(c, "boundary")
        ctx.ob(R5, reb.qual, "caller's multipart_boundary is forwarded", b is not None and astq.text(b) == "multipart_boundary", node=c)
    hdr = [c for c in astq.calls(reb.node) if isinstance(c.func, ast.Attribute) and c.func.attr in ("setdefault", "__setitem__") and c.args and isinstance(c.args[0], ast.Constant) and c.args[0].value == "Content-Type"]
    hdr_st = [n for n in astq.walk_fn(reb.node) if isinstance(n, ast.Assign) and isinstance(n.targets[0], ast.Subscript) and isinstance(n.targets[0].slice, ast.Constant) and n.targets[0].slice.value == "Content-Type"]
    ctx.sites(R5, len(hdr) + len(hdr_st), 1, "Content-Type header store")
    for c in hdr:
        kwd = set(astq.assigned_from(reb.node, lambda v: isinstance(v, ast.Dict)))
        fv = c.func.value
        ok = len(c.args) > 1 and astq.text(c.args[1]) == ct_n and isinstance(fv, ast.Subscript) and astq.text(fv.value) in kwd and getattr(fv.slice, "value", None) == "headers"
        ctx.ob(R5, reb.qual, "the Content-Type header of the outgoing request carries the encoder's content type", ok, astq.text(c), node=c)
    bst = [n for n in astq.walk_fn(reb.node) if isinstance(n, ast.Assign) and isinstance(n.targets[0], ast.Subscript) and isinstance(n.targets[0].slice, ast.Constant) and n.targets[0].slice.value == "body"]
    ctx.ob(R5, reb.qual, "the encoded body is what is sent", len(bst) == 1 and astq.text(bst[0].value) == body_n)


# ---------------------------------------------------------------------------- R2
FORBIDDEN = {10: "%0A", 13: "%0D", 34: "%22"}


def _regex_guard(ctx, module, node):
    """(pattern, flags, method) if `node` is a call that applies a regular expression to its last argument."""
    from ..fold import Regex

    m, fold = ctx.model, ctx.fold
    f = node.func

    def ev(e):
        try:
            return fold.ev(e, module)
        except Exception:
            return None

    def compiled(e):
        """Regex for an expression that is a compiled pattern: a folded constant or an inline <re>.compile(P[, F])."""
        r = ev(e)
        if isinstance(r, Regex):
            return r
        if isinstance(e, ast.Call) and isinstance(e.func, ast.Attribute) and e.func.attr == "compile" and e.args:
            pat = ev(e.args[0])
            flags = ev(e.args[1]) if len(e.args) > 1 else 0
            if isinstance(pat, str) and isinstance(flags, int):
                return Regex(pat, flags, e)
        return None

    if isinstance(f, ast.Attribute) and f.attr in ("match", "fullmatch", "search"):
        r = compiled(f.value)
        if r is not None and len(node.args) >= 1:
            return (r.pattern, r.flags, f.attr)
        # module-function style: <re>.match(P, s[, F])
        if len(node.args) >= 2:
            pat = ev(node.args[0])
            flags = ev(node.args[2]) if len(node.args) > 2 else 0
            if isinstance(pat, str) and isinstance(flags, int):
                return (pat, flags, f.attr)
    # ALIAS(s) where ALIAS = <compiled>.match at module level
    if isinstance(f, ast.Name):
        stmts = m.assigns.get(module, {}).get(f.id)
        if stmts:
            v = stmts[-1].value
            if isinstance(v, ast.Attribute) and v.attr in ("match", "fullmatch", "search"):
                r = compiled(v.value)
                if r is not None:
                    return (r.pattern, r.flags, v.attr)
    return None


def _run_r2(ctx, R2):
    from .. import rx

    m, fold = ctx.model, ctx.fold
    fm = m.func(f"{FL}.format_multipart_header_param")
    params = fm.params()
    if len(params) < 2:
        raise AnalysisError("format_multipart_header_param: (name, value) parameters not found")
    pname, pvalue = params[0], params[1]
    bad_chars = {chr(c) for c in FORBIDDEN}

    class Esc(BaseRule):
        wants_compose = True

        def __init__(self):
            self.guards = {}   # sym -> (safe, why, subject sym, text)
            self.parts = {}    # sym -> [("lit", str) | ("val", AV)]
            self.tables = []   # (node, table | None)
            self.n = 0

        def call(self, it, st, node, recv, pos, kw):
            f = node.func
            if isinstance(f, ast.Attribute) and recv is not None and "src:value" in recv.tags:
                if f.attr == "translate" and node.args:
                    try:
                        table = fold.ev(node.args[0], fm.module)
                    except Exception:
                        table = None
                    self.tables.append((node, table))
                    full = isinstance(table, dict) and all(table.get(c) == e for c, e in FORBIDDEN.items()) and not any(
                        isinstance(v, str) and (set(v) & bad_chars) for v in table.values())
                    tags = (recv.tags - {"raw"}) | ({"escaped"} if full else {"raw"})
                    return [Out("normal", st, AV("unk", sym=f"translate({recv.sym})", tags=frozenset(tags), none=False))]
                if f.attr in ("decode", "encode", "strip", "lstrip", "rstrip", "lower", "upper", "replace", "format", "join", "removeprefix", "removesuffix", "expandtabs", "title", "casefold"):
                    # conservative: any other str operation keeps (or may re-introduce) raw characters
                    tags = (recv.tags - {"escaped"}) | {"raw"}
                    return [Out("normal", st, AV("unk", sym=f"{f.attr}({recv.sym})", tags=frozenset(tags), none=False))]
            g = _regex_guard(ctx, fm.module, node)
            if g is not None and pos:
                subj = pos[-1]
                safe, why = rx.guard_excludes(g[0], g[1], g[2], bad_chars)
                self.n += 1
                sym = f"guard{self.n}:{ast.unparse(node)[:60]}"
                self.guards[sym] = (safe, why, subj.sym, ast.unparse(node))
                return [Out("normal", st, AV("unk", sym=sym))]
            return None

        def compose(self, it, st, node, children):
            if isinstance(node, ast.JoinedStr):
                parts = []
                for ch, av in children:
                    if isinstance(ch, ast.Constant):
                        parts.append(("lit", ch.value))
                    else:
                        parts.append(("val", av))
                self.n += 1
                sym = f"fstr{self.n}"
                self.parts[sym] = parts
                return AV("unk", sym=sym, none=False, truth=True)
            if isinstance(node, ast.BinOp) and isinstance(node.op, ast.Add) and len(children) == 2:
                parts = []
                for ch, av in children:
                    if av.sym in self.parts:
                        parts += self.parts[av.sym]
                    elif av.kind == "const" and isinstance(av.val, str):
                        parts.append(("lit", av.val))
                    else:
                        parts.append(("val", av))
                self.n += 1
                sym = f"concat{self.n}"
                self.parts[sym] = parts
                return AV("unk", sym=sym, none=False)
            return None

    rule = Esc()
    outs, it = run_function(m, fm, rule, params={pname: AV("unk", sym="p:name", tags=frozenset({"src:name"})),
                                                   pvalue: AV("unk", sym="p:value", tags=frozenset({"src:value", "raw"}))},
                            record_decisions=True)
    ctx.states += it.budget.steps
    rets = [o for o in outs if o.kind == "return"]
    ctx.sites(R2, len(rets), 1, "returning paths of format_multipart_header_param")
    ctx.sites(R2, len(rule.tables), 1, "translate call on the value")
    for node, table in rule.tables:
        for cp, esc in FORBIDDEN.items():
            ok = isinstance(table, dict) and table.get(cp) == esc
            ctx.ob(R2, fm.qual, f"code point {cp} -> {esc}", ok, f"table maps it to {table.get(cp)!r}" if isinstance(table, dict) else "the escape table does not fold to a constant", node=node)
        extra_bad = [k for k, v in (table.items() if isinstance(table, dict) else []) if isinstance(v, str) and (set(v) & bad_chars)]
        ctx.ob(R2, fm.qual, "no replacement re-introduces a quote or line break", not extra_bad, str(extra_bad), node=node)
    seen = set()
    for o in rets:
        st, av = o.st, o.val
        decs = tuple((a, b) for a, b in st.ts.get("dec", ()))
        parts = rule.parts.get(av.sym) if av is not None else None
        label = "; ".join(f"{a}={b}" for a, b in decs) or "straight-line"
        if parts is None:
            raise AnalysisError(f"format_multipart_header_param returns a value that is not an f-string/concatenation the rule can read ({ast.unparse(fm.node.body[-1])[:60]})")
        vals = [(i, x) for i, (k, x) in enumerate(parts) if k == "val" and "src:value" in x.tags]
        shape = tuple(("lit", x) if k == "lit" else ("val", tuple(sorted(t for t in x.tags if not t.startswith("not:")))) for k, x in parts)
        if (decs, shape) in seen:
            continue
        seen.add((decs, shape))
        ok_shape = len(vals) == 1
        quoted = False
        if ok_shape:
            i = vals[0][0]
            quoted = i > 0 and parts[i - 1][0] == "lit" and parts[i - 1][1].endswith('="') and i + 1 < len(parts) and parts[i + 1][0] == "lit" and parts[i + 1][1] == '"' and i + 2 == len(parts)
            name_ok = i == 2 and parts[0][0] == "val" and parts[0][1].sym == "p:name" and parts[1] == ("lit", '="')
            quoted = quoted and name_ok
        ctx.ob(R2, fm.qual, f"[{label}] result is <name>=\"<value>\"", ok_shape and quoted,
               "" if ok_shape and quoted else "the value is not wrapped in exactly one pair of double quotes after `name=`", witness=st.witness(), node=fm.node)
        if not ok_shape:
            continue
        v = vals[0][1]
        if "escaped" in v.tags and "raw" not in v.tags:
            ctx.ob(R2, fm.qual, f"[{label}] the value reaches the header escaped", True, node=fm.node)
            continue
        # unescaped on this path: only acceptable under a guard that proves there is nothing to escape
        proven, unsafe, unknown = None, None, []
        for gsym, (safe, why, subj, text) in rule.guards.items():
            fact = st.facts.get(gsym)
            if fact is None or (fact[0] is None and fact[1] is None):
                continue
            if (fact[0] is True or fact[1] is False) and subj == v.sym:
                if safe:
                    proven = (text, why)
                else:
                    unsafe = (text, why)
        for a, b in decs:
            if not (a.startswith("isinstance(") or any(g[3] in a for g in rule.guards.values())):
                unknown.append(a)
        if proven:
            ctx.ob(R2, fm.qual, f"[{label}] unescaped only under a guard that excludes CR, LF and quote", True, f"{proven[0]}: {proven[1]}", node=fm.node)
        elif unsafe or not unknown:
            why = (f"the guard `{unsafe[0]}` does not prove it: {unsafe[1]}" if unsafe else "no escaping on this path")
            ctx.ob(R2, fm.qual, f"[{label}] the value reaches the header unescaped", False,
                   why + " - field content can terminate the parameter, add a header or open a part", witness=st.witness(), node=fm.node)
        else:
            raise AnalysisError(f"format_multipart_header_param: the value skips escaping under a condition the rule cannot interpret ({unknown})")
