"""Effect rows of HTTPConnection.request, summarised for the framing rules (C11-R1/R2) and the output-discipline rules
(C10-R3/R4/R5).  Private helpers of the connection class are inlined, so extracting the framing decision or the chunk
loop into a helper does not change the rows; module constants fold, so naming the chunk template does not either."""
from __future__ import annotations

from ..interp import const
from ..model import AnalysisError
from ..rows import GenRule, effect_rows, helper_closure
from ..terms import K, T, destruct, norm, subst, subterms, tv

CN = "urllib3.connection"
HC = f"{CN}.HTTPConnection"
PUBLIC_OUT = ("putrequest", "putheader", "endheaders", "send")


class _View:
    """a row seen through a renaming of terms (positional and attribute access to the classification result name one thing)"""

    def __init__(self, r, canon):
        self._r, self._canon = r, canon
        self.st = r.st
        self.facts = {canon(k): v for k, v in r.st.facts.items()}
        self.ts = {(tuple(canon(x) if isinstance(x, str) else x for x in k) if isinstance(k, tuple) else k): v for k, v in r.st.ts.items()}

    def truth(self, sym):
        return self.facts.get(sym, (None, None))[0]

    def is_none(self, sym):
        return self.facts.get(sym, (None, None))[1]

    def isinst(self, sym, *fragments):
        for key, v in self.ts.items():
            if isinstance(key, tuple) and key and key[0] == "isinst" and key[1] == sym and all(any(fr in (c or "") for c in key[2]) for fr in fragments):
                return v
        return None

    def witness(self):
        return self._r.witness()


class ReqRow:
    def __init__(self, r):
        self.r = r
        self.problems = []
        # ---- caller header key set
        self.hk = None
        self.has = {}
        for k, v in r.st.ts.items():
            if isinstance(k, tuple) and len(k) == 4 and k[0] == "cmp" and k[2] == "in" and destruct(k[3])[0] in ("frozenset", "set", "setcomp", "listcomp", "tuple", "list") and destruct(k[1])[0] == "const":
                if self.hk is not None and self.hk != k[3]:
                    self.problems.append(f"two different key sets consulted: {self.hk[:50]} / {k[3][:50]}")
                self.hk = k[3]
                self.has[destruct(k[1])[1]] = v
        self.chunked = r.truth("p:chunked")
        # ---- body shape as classified by body_to_chunks
        self.btc = None
        for e in r.events("call"):
            if e[1] == "body_to_chunks":
                self.btc = T("body_to_chunks", *[a for a in e[2:] if isinstance(a, str)])
                self.btc_args = [a for a in e[2:] if isinstance(a, str)]
        self.CH = f"{self.btc}.chunks" if self.btc else None
        self.CL = f"{self.btc}.content_length" if self.btc else None
        btc = self.btc

        def canon(t):
            if not btc or not isinstance(t, str) or btc not in t:
                return t
            return subst(subst(t, T("idx", btc, "0"), f"{btc}.chunks"), T("idx", btc, "1"), f"{btc}.content_length")
        self.canon = canon
        self.v = _View(r, canon)
        self.chunks_none = self.v.is_none(self.CH) if self.CH else None
        self.cl_none = self.v.is_none(self.CL) if self.CL else None
        # ---- output events in order
        self.out = []
        for e in r.ev:
            if e[0] != "call":
                continue
            name = e[1]
            loop = next((tuple(canon(y) for y in x[1:]) for x in e[2:] if isinstance(x, tuple) and x and x[0] == "in"), ())
            args = [canon(a) for a in e[2:] if isinstance(a, str)]
            if name.startswith("self.") and name.count(".") == 1:
                self.out.append((name[5:], args, loop))
            elif name.startswith(("self.sock", "super.")):
                self.out.append((name, args, loop))

    def names(self):
        return [n for n, _, _ in self.out]

    def putheaders(self):
        return [(a, loop) for n, a, loop in self.out if n == "putheader"]

    def sends(self):
        return [(a, loop) for n, a, loop in self.out if n == "send"]

    def framing(self):
        out = []
        for a, loop in self.putheaders():
            if loop or not a:
                continue
            op, v = destruct(a[0])
            if op == "const" and isinstance(v, str) and v.lower() in ("transfer-encoding", "content-length"):
                out.append((v.lower(), a[1] if len(a) > 1 else None))
        return out


def request_rows(ctx):
    cache = ctx.__dict__.setdefault("_reqrows", {})
    if "rows" in cache:
        return cache["fi"], cache["rows"]
    m = ctx.model
    fi = m.method(HC, "request")
    inl = set(helper_closure(m, [fi])) - {fi.qual}
    inl = {q for q in inl if q.rsplit(".", 1)[-1] not in PUBLIC_OUT}
    rule = GenRule(ctx, fi.module, inline=inl, field_consts={"self.sock": const(None)})
    rows = effect_rows(ctx, fi, rule, HC, params={"headers": tv("p:headers", none=False)}, budget=4000000)
    rr = [ReqRow(r) for r in rows if r.returns]
    if len(rr) < 20:
        raise AnalysisError(f"HTTPConnection.request: only {len(rr)} returning rows (expected the framing table)")
    cache["fi"], cache["rows"] = fi, rr
    ctx.extra["request_rows"] = len(rr)
    ctx.extra["request_inlined_helpers"] = sorted(inl)
    return fi, rr


def key_set_ok(hk):
    """frozenset/set(<comprehension> lower-casing every key of the caller's headers)"""
    op, a = destruct(hk or "")
    if op in ("setcomp", "listcomp") and len(a) == 2:
        op, a = "set", (hk,)  # a bare comprehension used as the key set
    if op not in ("frozenset", "set", "tuple", "list") or len(a) != 1:
        return False
    op2, a2 = destruct(a[0])
    if op2 in ("set", "list", "frozenset") and len(a2) == 1:
        op2, a2 = destruct(a2[0])  # frozenset(set(...)): a set built first
    if op2 == "rep":
        op2 = "gen"  # built by an explicit loop adding one element per key
    if op2 not in ("gen", "listcomp", "setcomp") or len(a2) != 2:
        return False
    elt, src = a2
    if src not in ("p:headers", T("keys", "p:headers")):
        return False
    e = T("each", src)
    # bytes keys (b"Host") must be normalised to str as well, or the presence tests miss them
    return elt in (T("to_str", T("lower", e)), T("lower", T("to_str", e)))


def _once(seen, key):
    if key in seen:
        return False
    seen.add(key)
    return True


def check_output_discipline(ctx, R3, R4, R5):
    """C10-R3 (only the validating primitives write; every caller header goes through putheader), R4 (body after endheaders),
    R5 (automatic headers) on the rows of request()."""
    fi, rows = request_rows(ctx)
    seen = set()
    n_loop = 0
    # a key set built by an explicit loop has a zero-iteration sibling (no caller headers: the empty set, which is right);
    # it is accepted only next to the loop-built form, so that a constant empty set is still refused
    loop_built = any(key_set_ok(x.hk) and "rep(" in (x.hk or "") for x in rows)
    EMPTY_SETS = ("frozenset(set())", "frozenset()", "set()", "frozenset(list())", "frozenset(tuple())")

    def hk_ok(hk):
        return key_set_ok(hk) or (loop_built and hk in EMPTY_SETS)
    for x in rows:
        names = x.names()
        w = x.r.witness()
        # R3: primitives
        foreign = [n for n in names if n not in PUBLIC_OUT]
        if _once(seen, ("prims", tuple(sorted(set(names))))):
            ctx.ob(R3, fi.qual, f"output primitives used: {sorted(set(names))}", not foreign,
                   "" if not foreign else f"the request writes through {foreign}: something other than putrequest/putheader/endheaders/send", witness=w, node=fi.node)
        # shape: putrequest once and first, endheaders once, headers between, sends after
        ok_shape = names.count("putrequest") == 1 and names[:1] == ["putrequest"] and names.count("endheaders") == 1
        if ok_shape:
            i = names.index("endheaders")
            ok_shape = all(n == "putheader" for n in names[1:i]) and all(n == "send" for n in names[i + 1:])
        if _once(seen, ("shape", tuple(names), ok_shape)):
            ctx.ob(R4, fi.qual, f"one request line, then header lines, one endheaders(), body bytes only after it: {names}", ok_shape,
                   "" if ok_shape else "bytes are written before the header block is complete (or two request lines / header blocks are produced)", witness=w, node=fi.node)
        # R3: the caller's headers
        loop_ph = [(a, loop) for a, loop in x.putheaders() if loop]
        # (the pair-wise iteration; a loop over the keys alone, e.g. to collect the lower-cased names, writes nothing)
        iterated = any(isinstance(k, tuple) and k and k[0] == "iterated" and str(k[1]) in (T("items", "p:headers"), T("p:headers.items")) for k in x.r.st.ts)
        for a, loop in loop_ph:
            n_loop += 1
            src = loop[0] if loop else ""
            ok = src == T("items", "p:headers") and a == [T("each0", src), T("each1", src)]
            if _once(seen, ("loop", tuple(a), loop)):
                ctx.ob(R3, fi.qual, f"caller header loop: putheader({', '.join(a)}) for each item of {src}", ok,
                       "" if ok else "a caller header is written under another name / value than given, or from another mapping", witness=w, node=fi.node)
        if iterated and not loop_ph and _once(seen, ("loop-skip",)):
            ctx.ob(R3, fi.qual, "every caller header (name, value) goes through putheader", False, "the loop over the caller's headers has a path on which the header is not written through putheader", witness=w, node=fi.node)
        # R5: skip flags and default User-Agent
        pr = [a for n, a, _ in x.out if n == "putrequest"]
        if pr:
            a = pr[0]
            from ..rows import bind
            b_ = bind(["method", "url", "skip_host", "skip_accept_encoding"], a)
            pos = [b_.get("method"), b_.get("url")]
            kw = {k_: b_[k_] for k_ in ("skip_host", "skip_accept_encoding") if k_ in b_}
            want = {"skip_host": x.has.get("host"), "skip_accept_encoding": x.has.get("accept-encoding")}
            got = {k: {"True": True, "False": False}.get(v) for k, v in kw.items()}
            ok = pos[:2] == ["p:method", "p:url"] and all(want[k] is not None and got.get(k) == want[k] for k in want) and hk_ok(x.hk)
            if _once(seen, ("skip", tuple(a), tuple(sorted(want.items())), x.hk)):
                ctx.ob(R5, fi.qual, f"putrequest({', '.join(a)}) with caller host={want['skip_host']} accept-encoding={want['skip_accept_encoding']}", ok,
                       "" if ok else "Host / Accept-Encoding must be suppressed exactly when the caller supplied them (names compared lower-cased), on one request line for (method, url)", witness=w, node=fi.node)
        ua = [a for a, loop in x.putheaders() if not loop and a and destruct(a[0]) == ("const", "User-Agent")]
        has_ua = x.has.get("user-agent")
        ok = has_ua is not None and (len(ua) == 1) == (has_ua is False)
        if _once(seen, ("ua", len(ua), has_ua)):
            ctx.ob(R5, fi.qual, f"default User-Agent emitted {len(ua)}x with caller user-agent present={has_ua}", ok, "" if ok else "default User-Agent iff the caller gave none", witness=w, node=fi.node)
        # automatic header lines other than framing / User-Agent would be a new injection surface
        for a, loop in x.putheaders():
            if loop or not a:
                continue
            op, v = destruct(a[0])
            if not (op == "const" and isinstance(v, str) and v.lower() in ("transfer-encoding", "content-length", "user-agent")) and _once(seen, ("auto", a[0])):
                ctx.ob(R5, fi.qual, f"automatic header {a[0]}", False, "a header line that is neither the caller's nor one of the three automatic ones", witness=w, node=fi.node)
    ctx.sites(R3, n_loop, 1, "rows writing the caller's headers through putheader")
    ctx.sites(R5, len(rows), 20, "rows of request()")


def check_framing(ctx, R1, R2):
    fi, rows = request_rows(ctx)
    seen = set()
    n2 = 0
    TEMPLATE = K(b"%x\r\n%b\r\n")
    TERM = K(b"0\r\n\r\n")

    def _recognised_send(x, a, loop):
        if not a:
            return False
        if a == [TERM]:
            return True
        each = T("each", x.CH) if x.CH else None
        X = {each, T("encode", each, K("utf-8"))} if each else set()
        op, aa = destruct(a[0])
        if op == "mod" and len(aa) == 2 and aa[0] == TEMPLATE:
            return True
        return a[0] in X

    foreign = any(not _recognised_send(x, a, loop) for x in rows for a, loop in x.sends())
    if foreign:
        # the body is sent by an algorithm the rule does not follow (e.g. a lazy generator pipeline): the framing *headers* are
        # still decided row by row below; for the bytes sent only provenance is decided (DESIGN 13.2)
        bad = None
        for x in rows:
            for a, loop in x.sends():
                for t_ in a:
                    at = {y for y in subterms(t_) if destruct(y)[0] is None and y.startswith(("p:", "self."))}
                    if not at <= {"p:body", "p:method", "self.blocksize"}:
                        bad = (t_, x)
        ctx.ob(R2, fi.qual, "body-sending idiom not recognised: everything sent after the headers derives from the classified body and constants (provenance only)", bad is None,
               "" if bad is None else f"send({bad[0][:80]})", witness=bad[1].r.witness() if bad else None, node=fi.node)
    for x in rows:
        w = x.r.witness()
        ch, has_cl, has_te = x.chunked, x.has.get("content-length"), x.has.get("transfer-encoding")
        want_framing = want_chunked = None
        if ch is True:
            if has_te is not None:
                want_framing, want_chunked = (() if has_te else ("transfer-encoding",)), True
        elif ch is False:
            if has_cl is True:
                want_framing, want_chunked = (), False
            elif has_cl is False and has_te is True:
                want_framing, want_chunked = (), True
            elif has_cl is False and has_te is False:
                if x.cl_none is True and x.chunks_none is not None:
                    want_framing, want_chunked = ((), False) if x.chunks_none else (("transfer-encoding",), True)
                elif x.cl_none is False:
                    want_framing, want_chunked = ("content-length",), False
        framing = x.framing()
        sends = x.sends()
        body_sends = [(a, loop) for a, loop in sends if loop]
        terms = [(a, loop) for a, loop in sends if not loop]
        desc = f"chunked={ch} callerCL={has_cl} callerTE={has_te} length-None={x.cl_none} chunks-None={x.chunks_none}"
        if want_framing is None:
            if _once(seen, ("undecided", desc, tuple(f for f, _ in framing))):
                ctx.ob(R1, fi.qual, f"[{desc}] framing decided on all of chunked flag / caller CL / caller TE / body shape", False,
                       "a path emits (or omits) framing without having consulted the caller's framing headers and the body classification", witness=w, node=fi.node)
            continue
        okf = tuple(f for f, _ in framing) == want_framing
        for f, v in framing:
            if f == "transfer-encoding":
                okf = okf and v == K("chunked")
            else:
                okf = okf and v in (T("str", x.CL), x.CL, T("fstr", x.CL), T("format", x.CL))
        if foreign:
            key = (desc, tuple(framing), okf)
            if _once(seen, key):
                ctx.ob(R1, fi.qual, f"[{desc}] emits {[f for f, _ in framing] or 'no framing header'}", okf,
                       "" if okf else f"expected framing {want_framing}: the message would carry both/neither framing", witness=w, node=fi.node)
            continue
        okm = len(terms) == (1 if want_chunked else 0) and all(a == [TERM] for a, _ in terms) and (not want_chunked or (sends and not sends[-1][1]))
        modes = []
        for a, loop in body_sends:
            op, aa = destruct(a[0]) if a else (None, ())
            framed = op == "mod" and len(aa) == 2 and aa[0] == TEMPLATE
            modes.append(framed)
            okm = okm and framed == want_chunked and loop == (x.CH,)
        if x.chunks_none is True and body_sends:
            okm = False
        key = (desc, tuple(framing), tuple(modes), len(terms), okf, okm)
        if _once(seen, key):
            ctx.ob(R1, fi.qual, f"[{desc}] emits {[f for f, _ in framing] or 'no framing header'}; body sends {['framed' if m_ else 'raw' for m_ in modes]}, terminators {len(terms)}", okf and okm,
                   "" if (okf and okm) else f"expected framing {want_framing}, chunked-mode {want_chunked}: the message would carry both/neither framing or its body encoding would not match its headers", witness=w, node=fi.node)
        # ---- R2 chunk encoding
        each = T("each", x.CH) if x.CH else None
        for a, loop in body_sends:
            n2 += 1
            is_str = x.v.isinst(each, "str")
            X = T("encode", each, K("utf-8")) if is_str is True else each
            op, aa = destruct(a[0]) if a else (None, ())
            if op == "mod":
                # byte views of the same chunk: len() of these counts bytes whatever the item size of the buffer
                BV = (T("cast", T("memoryview", X), K("B")), T(T("memoryview", X) + ".cast", K("B")), T("bytes", X), T("tobytes", T("memoryview", X)), T(T("memoryview", X) + ".tobytes"))
                ok = len(aa) == 2 and (aa[1] == T("tuple", T("len", X), X) or any(aa[1] == T("tuple", T("len", b_), b_) for b_ in BV)
                                       or any(aa[1] == T("tuple", n_, X) for n_ in (T("nbytes", T("memoryview", X)), f"memoryview({X}).nbytes")))
                what = "chunk frame is (len(x), x) of the very bytes sent"
                if ok and is_str is False and aa[1] == T("tuple", T("len", X), X):
                    # len(chunk) on the chunk itself counts ITEMS: exact only when the chunk is known to be bytes on this path
                    is_bytes = x.v.isinst(each, "bytes")
                    if _once(seen, ("r2-items", is_bytes)):
                        ctx.ob(R2, fi.qual, "the size line counts bytes, not items: len() is taken of bytes or of a byte view of the chunk", is_bytes is True,
                               "" if is_bytes is True else "a buffer chunk whose items are wider than one byte (array('I', ..), a cast memoryview) is framed with its item count: "
                               "`chunked=True, body=array('I', [1, 2, 3])` sends the size line `3` followed by 12 bytes", witness=w, node=fi.node)
            else:
                ok = a == [X]
                what = "raw chunk is the chunk itself"
            if is_str is None:
                ok = False
            if _once(seen, ("r2", a[0] if a else "", is_str, ok)):
                ctx.ob(R2, fi.qual, f"{what}; str chunk={is_str} -> sends {a[0][:80] if a else ''}", ok,
                       "" if ok else "the size line does not measure the bytes that follow, or a str chunk is not UTF-8 encoded before it is measured and sent", witness=w, node=fi.node)
            ne = x.v.truth(each)
            if _once(seen, ("r2-empty", ne)):
                ctx.ob(R2, fi.qual, f"a chunk is sent only when non-empty (chunk truthy={ne})", ne is True, "" if ne is True else "an empty chunk in chunked mode ends the body early", witness=w, node=fi.node)
    ctx.sites(R1, len(rows), 20, "rows of the framing table")
    if not foreign:
        ctx.sites(R2, n2, 2, "chunk sends on rows")
    # body_to_chunks classifies this request's body
    for x in rows:
        a = x.btc_args if x.btc else []
        pos = [t for t in a if "=" not in t.split("(", 1)[0]]
        kw = {t.split("=", 1)[0]: t.split("=", 1)[1] for t in a if "=" in t.split("(", 1)[0]}
        ok = (pos[:1] == ["p:body"] or kw.get("body") == "p:body") and (kw.get("method") == "p:method" or pos[1:2] == ["p:method"])
        if _once(seen, ("btc", tuple(a))):
            ctx.ob(R1, fi.qual, f"body_to_chunks({', '.join(a)}) classifies this request's body and method", ok, witness=x.r.witness(), node=fi.node)
