"""Shared analysis of the two request drivers (HTTPConnectionPool.urlopen, PoolManager.urlopen):
abstract values, with provenance tags, of everything handed to each resend (self-recursive urlopen call)
and to the pool-level call, together with the decisions taken on the path.  Used by C04, C05, C06, C09, C11, C15."""
from __future__ import annotations

import ast
from dataclasses import replace

from .. import astq
from ..interp import (AV, BASE_TOP, EXT_TOP, RESEND, UNK, BaseRule, Budget, Interp, Out, State, const, dict_av, dslots, exc, obj)
from ..model import AnalysisError

CP = "urllib3.connectionpool"
PM = "urllib3.poolmanager"
RETRY = "urllib3.util.retry.Retry"


class Site:
    def __init__(self, kind, node, st, args, extra=None):
        self.kind, self.node, self.st, self.args, self.extra = kind, node, st, args, extra or {}

    def dec(self):
        return dict(self.st.ts.get("dec", ()))


class ResendRule(BaseRule):
    """Opaque calls do not raise here (path explosion is irrelevant to provenance); only the request step fails."""

    def __init__(self, m, fi, hot=frozenset()):
        self.m, self.fi = m, fi
        self.sites = []
        self.params = fi.params()
        self.hot = hot

    # -- helpers
    def _bind_call_args(self, node, pos, kw, target_fi):
        """name -> AV for a call of target_fi (urlopen) incl. **splat dict slots."""
        names = target_fi.params()
        out = {}
        for n, v in zip(names, pos):
            out[n] = v
        for k, v in kw.items():
            if k == "**":
                if v.kind == "dict":
                    for sk, sv in dslots(v).items():
                        out.setdefault(sk, sv)
                    out["**open"] = v.val[1]
                continue
            if k == "*":
                continue
            out[k] = v
        return out

    def atom_name(self, it, st, node):
        return ast.unparse(node)

    fold = None
    getattr_default_transparent = True  # the attributes this rule models (pool.retries, response.status, ...) always exist

    def global_value(self, it, name):
        """module constants of plain types fold (a status code or method name moved into a named constant is the same value)"""
        if self.fold is None:
            return None
        try:
            v = self.fold.module_const(it.module, name)
        except Exception:
            return None
        if isinstance(v, (int, str, bytes, float, bool, type(None))):
            return const(v)
        if isinstance(v, (tuple, frozenset)) and all(isinstance(x, (int, str, bytes)) for x in v):
            return const(v)
        if isinstance(v, dict) and all(isinstance(k_, str) and isinstance(x, (int, str, bytes, float, bool, type(None))) for k_, x in v.items()):
            return dict_av({k_: const(x) for k_, x in v.items()}, open_=False)  # a table of keyword arguments kept at module level
        return None

    def call(self, it, st, node, recv, pos, kw):
        t = ast.unparse(node.func)
        f = node.func

        def ret(av=UNK, log=None):
            s = st.copy()
            if log:
                s.log(node, log)
            return [Out("normal", s, av)]

        # ---- resend / pool-level call
        if t == "self.urlopen":
            args = self._bind_call_args(node, pos, kw, self.fi)
            s = st.copy()
            s.log(node, "RESEND")
            self.sites.append(Site("resend", node, s, args))
            return [Out("raise", s, RESEND)]
        if isinstance(f, ast.Attribute) and f.attr == "urlopen" and recv is not None and recv.kind == "obj" and recv.val == "pool":
            pool_urlopen = self.m.method(f"{CP}.HTTPConnectionPool", "urlopen")
            args = self._bind_call_args(node, pos, kw, pool_urlopen)
            args["__recv"] = recv
            s = st.copy()
            s.log(node, "POOL-CALL")
            self.sites.append(Site("poolcall", node, s, args))
            return [Out("normal", s, AV("obj", "response", truth=True, none=False, typ="urllib3.response.BaseHTTPResponse"))]
        # ---- request step
        if t == "self._make_request":
            s = st.copy()
            s.log(node, "REQUEST ok")
            s.ts["attempt"] = s.ts.get("attempt", 0) + 1
            a = self._bind_call_args(node, pos, kw, self.m.method(f"{CP}.HTTPConnectionPool", "_make_request"))
            self.sites.append(Site("request", node, s, a))
            s2 = st.copy()
            s2.log(node, "REQUEST fails")
            s2.ts["attempt"] = s2.ts.get("attempt", 0) + 1
            s2.ts["failed"] = True
            return [Out("normal", s, AV("obj", "response", truth=True, none=False, typ="urllib3.response.BaseHTTPResponse")),
                    Out("raise", s2, exc("builtins.OSError"))]
        # ---- retry policy
        if t == "Retry.from_int":
            d = kw.get("default") or (pos[2] if len(pos) > 2 else None)
            r = kw.get("redirect") or (pos[1] if len(pos) > 1 else None)
            tags = {"from_int"}
            if d is not None:
                tags.add("default:" + ",".join(sorted(d.tags)) if d.tags else "default:?")
            else:
                tags.add("no-default")
            src = pos[0] if pos else kw.get("retries")
            if src is not None:
                tags |= {"of:" + x for x in src.tags}
            s = st.copy()
            self.sites.append(Site("from_int", node, s, {"retries": src, "redirect": r, "default": d}))
            return [Out("normal", s, AV("unk", tags=frozenset(tags), truth=True, none=False, typ=RETRY, sym=f"policy@{node.lineno}"))]
        if isinstance(f, ast.Attribute) and f.attr == "increment" and recv is not None:
            b = it.bind_args(node, recv, pos, kw)
            bk = {**kw, **b}
            how = "error" if bk.get("error") is not None and not (bk["error"].kind == "const" and bk["error"].val is None) else ("response" if bk.get("response") is not None else "?")
            kw = {k: v for k, v in bk.items() if k in ("error", "response", "_pool", "_stacktrace", "method", "url")} or kw
            base = recv.tags
            s = st.copy()
            s.log(node, f"increment({how}) ok")
            s.ts["increments"] = s.ts.get("increments", 0) + 1
            self.sites.append(Site("increment", node, s, {"recv": recv, **kw, **{f"pos{i}": p for i, p in enumerate(pos)}}))
            s2 = st.copy()
            s2.log(node, f"increment({how}) raises MaxRetryError")
            new = AV("unk", tags=frozenset(base | {"incremented", f"inc:{how}", f"after-attempt:{st.ts.get('attempt', 0)}"}),
                     truth=True, none=False, typ=RETRY, sym=f"policy-inc@{node.lineno}")
            return [Out("normal", s, new), Out("raise", s2, exc("urllib3.exceptions.MaxRetryError"))]
        if isinstance(f, ast.Attribute) and f.attr in ("sleep", "sleep_for_retry", "is_retry") and recv is not None and recv.typ == RETRY:
            if f.attr == "is_retry":
                return ret(AV("unk", sym="is_retry"))
            return ret()
        # ---- response
        if isinstance(f, ast.Attribute) and f.attr == "get_redirect_location" and recv is not None and recv.kind == "obj" and recv.val == "response":
            return ret(AV("unk", sym="location", tags=frozenset({"location"})))
        if isinstance(f, ast.Attribute) and f.attr == "drain_conn" and recv is not None and recv.kind == "obj" and recv.val == "response":
            s = st.copy()
            s.ts["drained"] = s.ts.get("drained", 0) + 1
            s.log(node, "DRAIN")
            return [Out("normal", s, const(None))]
        if t == "urljoin":
            tags = {"urljoin"} | {"base:" + x for x in (pos[0].tags if pos else ())} | {"ref:" + x for x in (pos[1].tags if len(pos) > 1 else ())}
            return ret(AV("unk", tags=frozenset(tags), truth=True, none=False))
        if t == "parse_url":
            a = pos[0] if pos else UNK
            return ret(AV("obj", "parsed", truth=True, none=False, tags=frozenset({"parsed:" + x for x in a.tags})))
        if isinstance(f, ast.Attribute) and f.attr == "_replace" and recv is not None and recv.kind == "obj" and recv.val == "parsed":
            dropped = {f"dropped:{k}" for k, v in kw.items() if v.kind == "const" and v.val is None}
            return ret(AV("obj", "parsed", truth=True, none=False, tags=frozenset(recv.tags | dropped)))
        if isinstance(f, ast.Attribute) and f.attr == "_prepare_for_method_change":
            return ret(AV("unk", tags=frozenset((recv.tags if recv is not None else frozenset()) | {"method-change"}), truth=None, none=False))
        if t == "HTTPHeaderDict":
            a = pos[0] if pos else UNK
            return ret(AV("unk", tags=frozenset(a.tags | {"hd-copy"}), none=False))
        # ---- manager specifics
        if t == "self.connection_from_host":
            tags = set()
            for i, nm in enumerate(("host", "port", "scheme")):
                v = pos[i] if i < len(pos) else kw.get(nm)
                if v is not None:
                    tags |= {f"{nm}:{x}" for x in v.tags}
            return ret(AV("obj", "pool", truth=True, none=False, typ=f"{CP}.HTTPConnectionPool", tags=frozenset(tags)))
        if isinstance(f, ast.Attribute) and f.attr == "is_same_host" and recv is not None and recv.kind != "self":
            a = pos[0] if pos else kw.get("url", UNK)
            s = st.copy()
            s.ts["same_host_arg"] = tuple(sorted(a.tags))
            s.ts["same_host_recv"] = recv.val if recv.kind == "obj" else "?"
            return [Out("normal", s, AV("unk", sym="same_host"))]
        if t == "self._proxy_requires_url_absolute_form":
            return ret(AV("unk", sym="absolute_form"))
        if t == "connection_requires_http_tunnel":
            s = st.copy()
            b = it.bind_args(node, recv, pos, kw)
            names = ("proxy_url", "proxy_config", "destination_scheme")
            self.sites.append(Site("tunnel_pred", node, s, {**{f"pos{i}": (b.get(n) if b else (pos[i] if i < len(pos) else None)) for i, n in enumerate(names)},
                                                           **{f"kw:{k}": v for k, v in kw.items()}}))
            return [Out("normal", s, AV("unk", sym="tunnel_required"))]
        if isinstance(f, ast.Attribute) and f.attr == "copy" and recv is not None:
            return ret(AV("unk", tags=frozenset(recv.tags | {"copy"}), truth=recv.truth, none=False, sym=f"copy@{node.lineno}"))
        if isinstance(f, ast.Attribute) and f.attr in ("pop", "discard", "__delitem__") and recv is not None and "copy" in recv.tags:
            s = st.copy()
            key = pos[0] if pos else UNK
            s.ts["strip"] = s.ts.get("strip", ()) + ((recv.sym, tuple(sorted(key.tags)), tuple(g for g in s.ts.get("guards", ()))),)
            s.log(node, f"STRIP {ast.unparse(node)}")
            return [Out("normal", s, UNK)]
        if isinstance(f, ast.Attribute) and f.attr in ("update", "pop", "setdefault", "clear", "add", "discard", "extend", "popitem", "__setitem__", "__delitem__") \
                and recv is not None and recv.kind == "unk" and not ({"copy", "hd-copy", "method-change"} & set(recv.tags)) \
                and any(t in ("entry:headers", "entry:kw.headers", "self.headers") for t in recv.tags):
            s = st.copy()
            s.log(node, f"MUTATE caller mapping: {ast.unparse(node)[:50]}")
            self.sites.append(Site("mutate-uncopied", node, s, {"recv": recv, "args": pos}))
            if f.attr == "update":
                self.sites.append(Site("merge", node, s, {"into": recv, "what": pos[0] if pos else UNK}))
            return [Out("normal", s, UNK)]
        if isinstance(f, ast.Attribute) and f.attr == "update" and recv is not None and "copy" in recv.tags:
            a = pos[0] if pos else UNK
            s = st.copy()
            self.sites.append(Site("merge", node, s, {"into": recv, "what": a}))
            return [Out("normal", s, UNK)]
        if isinstance(f, ast.Attribute) and f.attr == "lower" and recv is not None:
            return ret(AV("unk", tags=frozenset(recv.tags | {"lower"}), none=False, sym=f"lower({recv.sym})" if recv.sym else None))
        if isinstance(f, ast.Attribute) and f.attr == "get" and recv is not None and recv.kind == "dict" and pos and pos[0].kind == "const":
            sl = dslots(recv)
            k = pos[0].val
            if k in sl:
                return ret(sl[k])
            dflt = pos[1] if len(pos) > 1 else const(None)
            if not recv.val[1]:
                return ret(dflt)
            return ret(AV("unk", sym=f"{recv.sym or 'kw'}[{k!r}]@entry", tags=frozenset({f"entry:kw.{k}"})))
        if t == "set_file_position":
            a = pos[1] if len(pos) > 1 else kw.get("pos", UNK)
            b = pos[0] if pos else kw.get("body", UNK)
            s = st.copy()
            s.ts["filepos_args"] = (tuple(sorted(b.tags)), tuple(sorted(a.tags)))
            return [Out("normal", s, AV("unk", tags=frozenset({"filepos"} | {"prev:" + x for x in a.tags}), sym="body_pos"))]
        if t in ("to_str", "_encode_target"):
            a = pos[0] if pos else next(iter(kw.values()), UNK) if len(kw) >= 1 and not pos else UNK
            if not pos and kw:
                q0 = it.resolve_callee(node, recv)
                fi0 = it.m.func(q0) if q0 else None
                first = fi0.params()[0] if fi0 and fi0.params() else None
                a = kw.get(first, a) if first else a
            return ret(AV("unk", tags=frozenset(a.tags | {t}), truth=a.truth, none=False))
        if t == "self.is_same_host":
            a = pos[0] if pos else kw.get("url", UNK)
            s = st.copy()
            s.ts["pool_same_host_arg"] = tuple(sorted(a.tags))
            return [Out("normal", s, AV("unk", sym="pool_same_host", tags=frozenset({"arg:" + x for x in a.tags})))]
        if t == "self._get_conn":
            s = st.copy()
            s.ts["got_conn"] = True
            return [Out("normal", s, AV("obj", "conn", truth=True, none=False, typ="urllib3.connection.HTTPConnection"))]
        if t == "self._get_timeout":
            a = pos[0] if pos else UNK
            return ret(AV("unk", tags=frozenset({"timeout-obj"} | {"of:" + x for x in a.tags}), truth=True, none=False))
        if t == "self._prepare_proxy":
            s = st.copy()
            s.ts["prepared_proxy"] = True
            s.log(node, "PREPARE-PROXY")
            return [Out("normal", s, const(None))]
        if t == "bool" and pos:
            return ret(AV("unk", truth=pos[0].truth, none=False, sym=pos[0].sym))
        if isinstance(f, ast.Attribute) and f.attr == "startswith" and recv is not None and recv.sym == "p:url" and pos and pos[0].kind == "const":
            # a test on the string the caller gave (selects origin-form vs absolute-form handling); stable symbol so the path remembers it
            return ret(AV("unk", sym=f"given-url.startswith({pos[0].val!r})"))
        # exception constructors keep their class
        q = it.resolve_callee(node, recv)
        if q and it.m.is_exception_class(q):
            return ret(AV("exc", it.m.norm(q), truth=True, none=False))
        if t == "_wrap_proxy_error":
            return ret(AV("exc", "urllib3.exceptions.ProxyError", truth=True, none=False))
        # helper methods of the driver's own class that reach a rule event are inlined (a helper-extraction refactor
        # must not change what the rules see); everything else is quiet
        q = it.resolve_callee(node, recv)
        if q in self.hot:
            return None
        return ret(AV("unk"))

    def getattr(self, it, st, node, base):
        t = ast.unparse(node)
        if base.kind == "obj" and base.val == "response" and node.attr == "status":
            return AV("unk", sym="status")
        if base.kind == "obj" and base.val == "parsed":
            return AV("unk", tags=frozenset({f"u.{node.attr}"} | {x + f".{node.attr}" for x in base.tags if not x.startswith("dropped:")} | {x for x in base.tags if x.startswith("dropped:")}), sym=f"u.{node.attr}")
        if base.kind == "self" and node.attr in ("retries", "headers", "proxy", "proxy_headers", "proxy_config"):
            return AV("unk", tags=frozenset({f"self.{node.attr}"}), sym=f"self.{node.attr}")
        if base.kind == "obj" and base.val == "pool" and node.attr == "retries":
            return AV("unk", tags=frozenset({"pool.retries"}), sym="pool.retries")
        if node.attr in ("remove_headers_on_redirect", "raise_on_redirect", "raise_on_status") and base.kind in ("unk",):
            return AV("unk", sym=f"retries.{node.attr}", tags=frozenset({f"retries.{node.attr}"} | {"of:" + x for x in base.tags}))
        return None

    def isinstance(self, it, st, node, av, classes):
        if av.typ == RETRY and classes == [RETRY]:
            return True
        return None

    def comprehension(self, it, st, node):
        """A one-generator comprehension over header names, evaluated on the one symbolic header: a tuple value holding the
        element when all its conditions hold, the empty tuple otherwise (so `[n for n in h if n.lower() in unsafe]` followed
        by a loop over the result is the same strip as the direct loop)."""
        if isinstance(node, ast.DictComp) or len(node.generators) != 1:
            return None
        g = node.generators[0]
        vals, raises = it.eval(st, g.iter)
        out = []
        for s0, itv in vals:
            s = s0.copy()
            it.assign(s, g.target, AV("unk", tags=frozenset({"iter:" + x for x in itv.tags} | {"header-name"}), sym="hname"))
            cur = [(s, True)]
            for cond in g.ifs:
                nxt = []
                for s1, alive in cur:
                    if not alive:
                        nxt.append((s1, False))
                        continue
                    res, r = it.truth_fork(s1, cond)
                    raises += r
                    nxt += [(s2, b) for s2, b in res]
                cur = nxt
            for s1, alive in cur:
                if not alive:
                    out.append((s1, AV("tuple", (), truth=False, none=False)))
                    continue
                ev, r = it.eval(s1, node.elt)
                raises += r
                out += [(s2, AV("tuple", (e,), truth=True, none=False)) for s2, e in ev]
        return out, raises

    def for_iter(self, it, st, stmt, itv):
        # header-strip loop: iterate once symbolically over the header names
        if itv.kind == "tuple":
            if not itv.val or st.ts.get(("iterated", stmt.lineno)):
                return [(st.copy(), False)]
            s = st.copy()
            it.assign(s, stmt.target, itv.val[0])
            s.ts[("iterated", stmt.lineno)] = True
            return [(s, True)]
        s = st.copy()
        it.assign(s, stmt.target, AV("unk", tags=frozenset({"iter:" + x for x in itv.tags} | {"header-name"}), sym="hname"))
        s.ts["loops"] = s.ts.get("loops", 0) + 1
        if s.ts["loops"] > 1:
            return [(st.copy(), False)]
        return [(s, True), (st.copy(), False)]

    def loop_break(self, it, stmt, st):
        st.ts["loop_broke"] = True

    def getitem(self, it, st, node):
        # `url[:1]` / `url[0]` of the string the caller gave: compared with "/" it is the startswith("/") test by another spelling
        if isinstance(node.value, ast.Name):
            v = st.env.get(it.var(node.value.id))
            if v is not None and st.view(v).sym == "p:url":
                sl = node.slice
                if isinstance(sl, ast.Slice) and sl.lower is None and sl.step is None and isinstance(sl.upper, ast.Constant) and sl.upper.value == 1:
                    return AV("unk", sym="given-url[:1]", none=False)
                if isinstance(sl, ast.Constant) and sl.value == 0:
                    return AV("unk", sym="given-url[0]", none=False)
        return None

    def compare(self, it, st, node, a, b):
        # `name.lower() in retries.remove_headers_on_redirect`
        if len(node.ops) == 1 and isinstance(node.ops[0], (ast.In, ast.NotIn)) and b.sym and b.sym.startswith("retries.remove_headers"):
            st.ts["strip_test"] = tuple(sorted(a.tags))
        return None


def resend_kind(site):
    """What a resend site does on the path it was recorded on: (where it goes, what consumed the budget) - three kinds in the pool
    (redirect, retry on a status, retry after an error), however many call expressions the source spells them with."""
    u, r = site.args.get("url"), site.args.get("retries")
    to = "redirect" if (u is not None and (("location" in u.tags) or any(t.startswith("ref:location") or t == "urljoin" for t in u.tags))) else "same-url"
    how = sorted(t for t in (r.tags if r is not None else ()) if t.startswith("inc:"))
    return (to, how[0] if how else "inc:?")


EVENT_ATTRS = {"urlopen", "from_int", "increment", "drain_conn", "_make_request", "is_same_host", "get_redirect_location", "_prepare_proxy", "_get_conn",
               "connection_from_host", "_proxy_requires_url_absolute_form", "sleep", "sleep_for_retry", "is_retry"}
NEVER_INLINE = {"urlopen", "_make_request", "_get_conn", "_put_conn", "_new_conn", "_prepare_proxy", "_validate_conn", "_get_timeout", "_raise_timeout",
                "is_same_host", "connection_from_host", "connection_from_url", "connection_from_context", "connection_from_pool_key", "_new_pool",
                "_merge_pool_kwargs", "_proxy_requires_url_absolute_form", "request", "request_encode_url", "request_encode_body", "close", "clear"}


def hot_helpers(m, cls, driver):
    """Methods of the driver's class (and its bases) other than the modelled ones from which a resend-analysis event is reachable."""
    methods = {}
    for c in m.mro(cls):
        ci = m.classes.get(c)
        if ci is None:
            continue
        for n_, f in ci.methods.items():
            methods.setdefault(n_, f)
    def direct(f):
        for x in ast.walk(f.node):
            if isinstance(x, ast.Call) and isinstance(x.func, ast.Attribute) and x.func.attr in EVENT_ATTRS:
                return True
        return False
    hot = {n_ for n_, f in methods.items() if n_ not in NEVER_INLINE and direct(f)}
    # header-handling helpers (copy / strip / merge of a mapping handed in) are part of what the rules look at, too
    def touches_headers(f):
        return any(isinstance(x, ast.Call) and isinstance(x.func, ast.Attribute) and x.func.attr in ("copy", "pop", "update", "discard", "_prepare_for_method_change") for x in ast.walk(f.node))
    hot |= {n_ for n_, f in methods.items() if n_ not in NEVER_INLINE and n_.startswith("_") and not n_.startswith("__") and touches_headers(f)}
    # every other private helper the driver reaches (a step of urlopen moved into a method or a module function) is interpreted
    # in place as well: what the rules see must not depend on where the maintainers keep the code
    from ..rows import helper_closure
    reach = helper_closure(m, [driver], stop=tuple(NEVER_INLINE))
    extra = {q for q in reach if q != driver.qual}
    hot_q = frozenset(methods[n_].qual for n_ in hot) | frozenset(extra)
    return hot_q
    changed = True
    while changed:
        changed = False
        for n_, f in methods.items():
            if n_ in hot or n_ in NEVER_INLINE:
                continue
            for x in ast.walk(f.node):
                if isinstance(x, ast.Call) and isinstance(x.func, ast.Attribute) and isinstance(x.func.value, ast.Name) and x.func.value.id in ("self", "cls") and x.func.attr in hot:
                    hot.add(n_)
                    changed = True
                    break
    return frozenset(methods[n_].qual for n_ in hot)


def analyse(ctx, which):
    """which: 'pool' | 'manager' | 'proxymanager'."""
    m = ctx.model
    cache = ctx.__dict__.setdefault("_resend_cache", {})
    if which in cache:
        return cache[which]
    if which == "pool":
        cls, fi = f"{CP}.HTTPConnectionPool", m.method(f"{CP}.HTTPConnectionPool", "urlopen")
    elif which == "manager":
        cls, fi = f"{PM}.PoolManager", m.method(f"{PM}.PoolManager", "urlopen")
    else:
        cls, fi = f"{PM}.ProxyManager", m.method(f"{PM}.ProxyManager", "urlopen")
    hot = hot_helpers(m, cls, fi)
    ctx.extra.setdefault("resend_inlined_helpers", {})[which] = sorted(hot)
    rule = ResendRule(m, m.method(f"{PM}.PoolManager", "urlopen") if which == "proxymanager" else fi, hot)
    rule.fold = ctx.fold
    it = Interp(m, rule, cls, fi.module, frozenset(hot), budget=Budget(2500000))
    it.func_qual = fi.qual
    it.record_decisions = True
    st = State()
    a = fi.node.args
    for p in fi.params():
        st.env[it.var(p)] = AV("unk", sym=f"p:{p}", tags=frozenset({f"entry:{p}"}))
    if a.kwarg:
        st.env[it.var(a.kwarg.arg)] = dict_av({}, True, sym=f"p:{a.kwarg.arg}", tags=frozenset({f"entry:{a.kwarg.arg}"}))
    outs = it.exec_block(fi.node.body, [st])
    ctx.states += it.budget.steps
    res = (rule, fi, outs)
    cache[which] = res
    return res
