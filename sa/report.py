"""Check context: obligations, known findings, evidence and replay files, exit codes."""
from __future__ import annotations

import hashlib
import json
import os
import sys
import time
import traceback

from .fold import Folder
from .model import AnalysisError, Model, repo_root

VERIF = os.path.dirname(os.path.dirname(os.path.abspath(__file__)))
EVIDENCE_DIR = os.environ.get("VERIF_EVIDENCE_DIR", os.path.join(VERIF, "evidence"))
KNOWN_FILE = os.path.join(VERIF, "known_findings.json")

ASSUMPTIONS = {
    "A1": "A1 trusted platform: CPython, queue.LifoQueue, threading.RLock, OpenSSL and http.client behave as their source/documentation says",
    "A2": "A2 asynchronous exceptions are modelled as raised by calls (where blocked I/O observes them), not between arbitrary bytecodes",
    "A3": "A3 close() used as cleanup in finally/except blocks does not raise",
    "A4": "A4 extension points (ConnectionCls, QueueCls, key_fn_by_scheme, pool_classes_by_scheme) are analysed at their defaults",
    "A5": "A5 no run-time monkey-patching of urllib3 internals other than the package's own inject_into_urllib3",
}


class Obligation:
    __slots__ = ("rule", "func", "construct", "ok", "detail", "witness", "loc", "nontrivial")

    def __init__(self, rule, func, construct, ok, detail="", witness=None, loc=None, nontrivial=True):
        self.rule, self.func, self.construct = rule, func, construct
        self.ok, self.detail, self.witness, self.loc = ok, detail, witness, loc
        self.nontrivial = nontrivial

    @property
    def key(self):
        return f"{self.rule}|{self.func}|{self.construct}"

    def to_json(self):
        d = {"rule": self.rule, "function": self.func, "construct": self.construct, "holds": self.ok}
        if self.detail:
            d["detail"] = self.detail
        if self.loc:
            d["at"] = self.loc
        return d


class Ctx:
    def __init__(self, prop, tier="quick", repo=None):
        self.prop = prop
        self.tier = tier
        self.repo = repo or repo_root()
        self.t0 = time.time()
        self.model = Model(self.repo)
        self.fold = Folder(self.model)
        self.obs: list[Obligation] = []
        self.rules: dict[str, dict] = {}
        self.assumptions: set[str] = set()
        self.extra: dict = {}
        self.states = 0
        self.declined: list[str] = []
        self.shortfalls: list[str] = []

    # ---- rule bookkeeping
    def rule(self, rid, text, engine=""):
        self.rules[rid] = {"id": rid, "decides": text, "engine": engine, "sites": 0, "obligations": 0}
        return rid

    def assume(self, *ids):
        self.assumptions |= set(ids)

    def decline(self, text):
        self.declined.append(text)

    def ob(self, rule, func, construct, ok, detail="", witness=None, node=None, nontrivial=True):
        """Record one obligation. `construct` is normalised (no line numbers)."""
        if rule not in self.rules:
            self.rules[rule] = {"id": rule, "decides": "", "engine": "", "sites": 0, "obligations": 0}
        loc = self.model.loc(node) if node is not None else None
        o = Obligation(rule, func, str(construct), bool(ok), detail, witness, loc, nontrivial)
        self.obs.append(o)
        self.rules[rule]["obligations"] += 1
        return o

    def sites(self, rule, n, minimum=1, what="sites"):
        """Non-vacuity: a rule that matched fewer than `minimum` sites is an analysis error."""
        if rule in self.rules:
            self.rules[rule]["sites"] += n
        if n < minimum:
            # deferred: a violation found elsewhere wins; otherwise the run ends as ANALYSIS-ERROR (never a silent pass)
            self.shortfalls.append(f"{rule}: matched {n} {what}, expected at least {minimum} (anchor moved or idiom not recognised)")

    # ---- finish
    def finish(self):
        known = load_known()
        viol, matched = [], []
        seen = set()
        for o in self.obs:
            if o.ok:
                continue
            if o.key in seen:
                continue
            seen.add(o.key)
            k = match_known(known, self.prop, o)
            if k is not None:
                matched.append((o, k))
            else:
                viol.append(o)
        os.makedirs(os.path.join(EVIDENCE_DIR, "replay"), exist_ok=True)
        for o, k in matched:
            print(f"KNOWN-FINDING: property={self.prop} {k.get('id', '')} {o.rule} {o.func}: {k['what']}")
        replay_paths = []
        for o in viol:
            h = hashlib.sha1(o.key.encode()).hexdigest()[:10]
            path = os.path.join(EVIDENCE_DIR, "replay", f"{self.prop}-{h}.json")
            with open(path, "w") as fh:
                json.dump({"property": self.prop, "rule": o.rule, "function": o.func, "construct": o.construct,
                           "detail": o.detail, "at": o.loc, "key": o.key, "witness": o.witness,
                           "repo": self.repo}, fh, indent=1, default=str)
            replay_paths.append(path)
            print(f"  rule {o.rule} fails in {o.func} at {o.loc or '?'}: {o.construct}")
            if o.detail:
                print(f"    {o.detail}")
            if o.witness:
                for step in list(o.witness)[-12:]:
                    print(f"      | {step}")
            print(f"VIOLATION property={self.prop} replay={path}")
        if not viol and self.shortfalls:
            self.write_evidence(0, matched, error="; ".join(self.shortfalls))
            raise AnalysisError("; ".join(self.shortfalls))
        dump = os.environ.get("VERIF_DUMP_KEYS")
        if dump:
            with open(dump, "w") as fh:
                json.dump(sorted({f"{o.key}|{'holds' if o.ok else 'FAILS'}" for o in self.obs}), fh)
        self.write_evidence(len(viol), matched)
        return 1 if viol else 0

    def write_evidence(self, nviol, matched, error=None):
        obs = self.obs
        keys = {o.key for o in obs}
        nontrivial = {o.key for o in obs if o.nontrivial}
        held = [o for o in obs if o.ok]
        samples = []
        by_rule = {}
        for o in obs:
            by_rule.setdefault(o.rule, []).append(o)
        for r, lst in by_rule.items():
            for o in lst[:2]:
                samples.append(o.to_json())
        rules = list(self.rules.values())
        expl = (f"Static analysis of {self.repo}/src/urllib3 (ast parse, no execution). "
                f"Rules applied: " + "; ".join(f"{r['id']}: {r['decides']}" for r in rules if r["decides"]))
        if self.declined:
            expl += " || Declined clauses (not decided statically): " + "; ".join(self.declined)
        ev = {
            "property_id": self.prop,
            "tier": self.tier,
            "seed": int(os.environ.get("VERIF_SEED", "0") or 0),
            "level": "other",
            "coverage": {
                "explanation": expl,
                "evaluations": len(obs),
                "distinct_nontrivial": len(nontrivial),
                "rule": "one obligation per rule x site x path/table-row; distinct by (rule, function, normalised construct); non-trivial = the analysed object is non-empty (>=1 path, row, call site or table entry was inspected)",
                "obligations": len(keys),
                "discharged": len({o.key for o in held}),
                "samples": samples[:40],
                "rules": rules,
                "modules_analysed": len(self.model.repo_modules()),
                "functions_analysed": len(self.model.repo_funcs()),
                "states_explored": self.states,
                "pruned_blocks": [f"{m}:{ln} {why}" for m, ln, why in self.model.pruned],
                "known_findings_matched": [{"key": o.key, "what": k["what"]} for o, k in matched],
                "exhaustive": True,
                **self.extra,
            },
            "assumptions": [ASSUMPTIONS[a] for a in sorted(self.assumptions)],
            "wall_s": round(time.time() - self.t0, 3),
            "violations": nviol,
        }
        if error:
            ev["coverage"]["analysis_error"] = error
        os.makedirs(EVIDENCE_DIR, exist_ok=True)
        with open(os.path.join(EVIDENCE_DIR, f"{self.prop}.json"), "w") as fh:
            json.dump(ev, fh, indent=1, default=str)


def load_known():
    if not os.path.exists(KNOWN_FILE):
        return []
    with open(KNOWN_FILE) as fh:
        data = json.load(fh)
    return data.get("findings", [])


def match_known(known, prop, o: Obligation):
    for k in known:
        if k.get("status") != "known":
            continue
        if prop not in k.get("properties", []):
            continue
        if k.get("key") == o.key:
            return k
    return None


def run_check(prop, tier, fn):
    """Run fn(ctx) fail-closed.  exit 0 holds / 1 violation / 2 analysis error."""
    ctx = None
    try:
        ctx = Ctx(prop, tier)
        fn(ctx)
        code = ctx.finish()
        n = len(ctx.obs)
        print(f"{prop}: {n} obligations over {len(ctx.rules)} rules, "
              f"{sum(1 for o in ctx.obs if not o.ok)} failing, exit {code}, {time.time() - ctx.t0:.2f}s")
        return code
    except AnalysisError as e:
        print(f"ANALYSIS-ERROR property={prop} {e}")
        if ctx is not None:
            # violations already established by the rules that did run are still reported
            try:
                if any(not o.ok for o in ctx.obs):
                    ctx.shortfalls = []
                    code = ctx.finish()
                    if code == 1:
                        return 1
                ctx.write_evidence(0, [], error=str(e))
            except AnalysisError:
                pass
            except Exception:
                traceback.print_exc(file=sys.stderr)
        return 2
    except Exception as e:  # a traceback must never look like a violation
        traceback.print_exc(file=sys.stderr)
        print(f"ANALYSIS-ERROR property={prop} internal error {type(e).__name__}: {e}")
        if ctx is not None:
            try:
                ctx.write_evidence(0, [], error=f"{type(e).__name__}: {e}")
            except Exception:
                pass
        return 2
