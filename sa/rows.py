"""Effect rows: a function summarised as decision rows (facts about Herbrand terms) + ordered events + outcome.

`GenRule` is the general-purpose term rule used by the per-property checks: fields of `self` and parameters are
atoms, module constants fold to constants (or named atoms), calls of sibling methods are events *and* terms, private
helpers named in `inline` are inlined by the interpreter (so extracting or inlining a helper does not change the
rows), attribute stores and yields are events.  `Row` gives the lookups rules need without touching source text."""
from __future__ import annotations

import ast

from .events import run_function
from .fold import EnumRef, Regex, Unfoldable
from .interp import AV, BASE_TOP, EXT_TOP, UNK, Out, const, dict_av, dslots, exc
from .terms import PURE_BUILTINS, PURE_STR_METHODS, T, TermRule, destruct, is_opaque, term_of, tv

MUTATING_METHODS = {"append", "extend", "insert", "pop", "remove", "clear", "sort", "reverse", "update", "setdefault", "popitem", "discard", "add",
                    "put", "close", "seek", "write", "send", "sendall", "settimeout", "release_conn", "drain_conn", "connect", "request", "getresponse",
                    "start_connect", "set_tunnel", "shutdown", "flush", "decompress", "read", "readinto", "read1", "readline", "_safe_read"}


class GenRule(TermRule):
    def __init__(self, ctx, module, inline=frozenset(), raising=None, events=None, quiet=(), pure_self=(), field_consts=None):
        self.ctx, self.module = ctx, module
        self.inline = frozenset(inline)
        self.raising = dict(raising or {})      # "name" (method or function) -> exception class it may raise
        self.events = events                      # optional predicate(text, node) -> event name for arbitrary calls
        self.quiet = set(quiet)                   # call texts that are pure and uninteresting (logging, ...)
        self.pure_self = set(pure_self)           # self-methods that are pure lookups: term only, no event
        self.field_consts = dict(field_consts or {})

    max_while = 2  # `while` loops whose body accumulates events are unrolled this many times per path; longer runs repeat the same steps

    def loop_enter(self, it, stmt, st):
        k = ("while", it.frame, stmt.lineno)
        n = st.ts.get(k, 0)
        if n > self.max_while:
            return False
        st.ts[k] = n + 1
        return True

    def _raise(self, st, node, name, cls, args=()):
        s2 = st.copy()
        s2.log(node, f"{name} raises {cls}")
        s2.ts["fault"] = (name, cls)
        s2.ts["fault_args"] = tuple(a for a in args if isinstance(a, str))
        return Out("raise", s2, exc(cls))

    def ev(self, st, *e):
        loops = st.ts.get("loops", ())
        st.ts["ev"] = st.ts.get("ev", ()) + ((e + (("in",) + loops,)) if loops else e,)

    # ---- names
    def global_value(self, it, name):
        if name in ("NotImplemented", "Ellipsis"):
            return tv(name, none=False, truth=True)
        try:
            v = self.ctx.fold.module_const(it.module, name)
        except (Unfoldable, Exception):
            v = None
            if name in self.ctx.model.assigns.get(it.module, {}) or name in self.ctx.model.imports.get(it.module, {}):
                return tv(f"g:{name}", none=False)
            fq = f"{it.module}.{name}"
            if fq in self.ctx.model.funcs and self.ctx.model.funcs[fq].cls is None:
                return tv(f"fn:{fq}", none=False, truth=True)
            return None
        if isinstance(v, Regex):
            return tv(f"rx:{name}", none=False, truth=True)
        if isinstance(v, EnumRef):
            return AV("const", ("enum", str(v)), truth=True, none=False)
        if isinstance(v, list) and all(isinstance(x, (str, bytes, int, float, bool, type(None))) for x in v):
            v = tuple(v)  # a module-level list of literals used as a table: its elements are what matters
        if isinstance(v, (str, bytes, int, float, bool, type(None), tuple, frozenset)):
            try:
                hash(v)
                return const(v)
            except TypeError:
                pass
        return tv(f"g:{name}", none=False)

    def getattr(self, it, st, node, base):
        if base.kind == "self":
            k = f"self.{node.attr}"
            if k in self.field_consts:
                return self.field_consts[k]
            if ("self", node.attr) in st.heap:
                return None  # written earlier on this path: the interpreter reads the stored value
            return tv(k)
        if base.kind == "unk" and base.sym and not base.sym.startswith(("list(", "tuple(")):
            if base.sym.startswith("g:") or base.sym.startswith("p:") or base.sym.startswith("self.") or "(" in base.sym:
                return tv(f"{base.sym}.{node.attr}")
        if base.kind == "unk" and any(t.startswith("global:") for t in base.tags):
            g = [t for t in base.tags if t.startswith("global:")][0][7:]
            return tv(f"g:{g}.{node.attr}", none=False)
        return None

    def setattr(self, it, st, target, base, av):
        self.ev(st, "store", ast.unparse(target.value) if not (isinstance(target.value, ast.Name) and target.value.id == "self") else "self", target.attr, term_of(av))

    def setitem(self, it, st, target, av):
        bv, _ = it.eval(st, target.value)
        base = term_of(bv[0][1]) if bv else "?"
        if base.startswith("list(") or isinstance(target.slice, ast.Slice):
            return
        kv, _ = it.eval(st, target.slice)
        self.ev(st, "setitem", base, term_of(kv[0][1]) if kv else "?", term_of(av))

    def delete(self, it, st, stmt):
        """`del m[k]` is an event (and may raise KeyError when declared so via raising["del"]); `del name` is not."""
        outs = None
        for t in stmt.targets:
            if isinstance(t, ast.Subscript):
                bv, _ = it.eval(st, t.value)
                kv, _ = it.eval(st, t.slice) if not isinstance(t.slice, ast.Slice) else ([], [])
                base = term_of(bv[0][1]) if bv else "?"
                self.ev(st, "delitem", base, term_of(kv[0][1]) if kv else "?")
                r = self.raising.get("del")
                if r:
                    outs = [Out("normal", st), self._raise(st, stmt, "del", r)]
            elif isinstance(t, ast.Attribute) and isinstance(t.value, ast.Name):
                self.ev(st, "delattr", t.value.id, t.attr)
        return outs

    def on_yield(self, it, stmt, av, outs):
        res = []
        for o in outs:
            if o.kind == "normal":
                self.ev(o.st, "yield", term_of(av))
                res.append(o)
        return res

    # ---- calls
    def call_hook(self, it, st, node, recv, pos, kw):
        f = node.func
        text = ast.unparse(f)
        sp = kw.get("**")
        if sp is not None and sp.kind == "dict":
            # f(**{"a": x, ...}) is f(a=x, ...): a keyword dictionary built first is the same call
            kw = {k: v for k, v in kw.items() if k != "**"}
            for k, v in dslots(sp).items():
                kw.setdefault(k, v)
            if sp.val[1]:
                kw["**"] = tv(sp.sym or "?open")
        if text in ("typing.cast", "cast") and len(pos) == 2:
            return [Out("normal", st, pos[1])]  # a static-typing no-op
        q0 = it.resolve_callee(node, recv)
        pos, kw = self._canon_args(it, node, recv, q0, pos, kw)
        args = [term_of(p) for p in pos] + [f"{k}={term_of(v)}" for k, v in sorted(kw.items())]
        if text in self.quiet or text.startswith("log."):
            return [Out("normal", st, UNK)]
        q = it.resolve_callee(node, recv)
        if q and it.m.is_exception_class(q):
            return [Out("normal", st, AV("exc", it.m.norm(q), truth=True, none=False))]
        if q in self.inline:
            return None
        if self.events is not None:
            name = self.events(text, node)
            if name:
                s = st.copy()
                self.ev(s, name, *args)
                outs = [Out("normal", s, tv(T(name, *args)))]
                r = self.raising.get(name) or self.raising.get(text)
                if r:
                    outs.append(self._raise(st, node, name, r, args))
                return outs
        if isinstance(f, ast.Attribute) and recv is not None:
            leaf = f.attr
            if recv.kind != "self" and leaf in PURE_STR_METHODS and not (recv.sym or "").startswith(("p:**",)):
                return None  # known pure operation: TermRule builds the term
            if recv.sym and ((recv.sym.startswith(("list(", "listcomp(")) and leaf in ("append", "extend")) or (recv.sym.startswith(("set(", "setcomp(")) and leaf in ("add", "update"))) \
                    and (isinstance(f.value, ast.Name) or (isinstance(f.value, ast.Attribute) and isinstance(f.value.value, ast.Name) and f.value.value.id == "self" and recv.sym.startswith(("list(", "set(")))):
                return None  # local (or own-field) list / set builder
            if recv.kind == "self" or text.startswith("cls."):
                nm = f"self.{leaf}"
                s = st.copy()
                if leaf not in self.pure_self:
                    self.ev(s, "call", nm, *args)
                outs = [Out("normal", s, tv(T(nm, *args)))]
                r = self.raising.get(leaf)
                if r:
                    outs.append(self._raise(st, node, nm, r, args))
                return outs
            if isinstance(f.value, ast.Call) and ast.unparse(f.value.func) == "super":
                s = st.copy()
                self.ev(s, "call", f"super.{leaf}", *args)
                return [Out("normal", s, tv(T(f"super.{leaf}", *args)))]
            if recv.sym and leaf in MUTATING_METHODS and not (recv.sym.startswith("list(")):
                s = st.copy()
                self.ev(s, "call", f"{recv.sym}.{leaf}", *args)
                outs = [Out("normal", s, tv(T(f"{recv.sym}.{leaf}", *args)))]
                r = self.raising.get(leaf)
                if r:
                    outs.append(self._raise(st, node, f"{recv.sym}.{leaf}", r, args))
                return outs
            if recv.sym and recv.kind == "unk":
                # a method of some other object: a term (pure unless declared raising)
                outs = [Out("normal", st, tv(T(f"{recv.sym}.{leaf}", *args)))]
                r = self.raising.get(leaf)
                if r:
                    outs.append(self._raise(st, node, f"{recv.sym}.{leaf}", r, args))
                return outs
        if isinstance(f, ast.Name) and f.id in self.raising and f.id in PURE_BUILTINS and st.env.get(it.var(f.id)) is None:
            # a builtin declared as possibly raising (memoryview(x) -> TypeError, ...): its term, or the exception
            typ = f"builtins.{f.id}" if f.id in ("str", "bytes", "int", "float", "list", "tuple", "set", "frozenset", "dict", "bytearray", "memoryview") else None
            return [Out("normal", st, AV("unk", sym=T(f.id, *args), none=False, typ=typ)), self._raise(st, node, f.id, self.raising[f.id], args)]
        if isinstance(f, ast.Name):
            v = st.env.get(it.var(f.id))
            if v is not None and v.sym:
                op_, a_ = destruct(v.sym)
                if op_ == "getattr" and len(a_) >= 2 and destruct(a_[1])[0] == "const" and isinstance(destruct(a_[1])[1], str):
                    # m = getattr(obj, "name", None); m(...)  is  obj.name(...)
                    leaf = destruct(a_[1])[1]
                    nm = f"{a_[0]}.{leaf}"
                    s = st.copy()
                    if leaf in MUTATING_METHODS:
                        self.ev(s, "call", nm, *args)
                    outs = [Out("normal", s, tv(T(nm, *args)))]
                    r = self.raising.get(leaf)
                    if r:
                        outs.append(self._raise(st, node, nm, r, args))
                    return outs
            if v is not None and v.sym and v.kind == "unk" and not v.sym.startswith(("list(", "tuple(", "p:*")) and ("(" in v.sym or v.sym.startswith("p:")):
                # calling a value computed earlier (a function looked up in a table, a partial, ...): a term over that value
                outs = [Out("normal", st, tv(T("call", v.sym, *args)))]
                r = self.raising.get("call")
                if r:
                    outs.append(self._raise(st, node, "call", r, args))
                return outs
            if v is None and q is None:
                host = it.m.funcs.get(getattr(it, "func_qual", None) or "")
                if host is not None and any(isinstance(n_, (ast.FunctionDef, ast.AsyncFunctionDef)) and n_.name == f.id and n_ is not host.node for n_ in ast.walk(host.node)):
                    return [Out("normal", st, tv(T(f"nested:{f.id}", *args), none=False, truth=True))]
            if f.id == "cls" or (isinstance(f, ast.Name) and q and q in it.m.classes):
                return [Out("normal", st, tv(T("new:" + (f.id if f.id == "cls" else q.rsplit(".", 1)[-1]), *args), none=False, truth=True))]
            if f.id == "hasattr" and len(pos) == 2:
                return [Out("normal", st, tv(T("hasattr", *args)))]
            if f.id == "isinstance":
                return None
            if q and q.startswith("urllib3."):
                leaf = q.rsplit(".", 1)[-1]
                local = f"{it.module}.{leaf}"
                if local != q and local in it.m.funcs:
                    # an imported function whose name collides with one of this module: keep them apart in terms
                    leaf = q.split(".")[-2] + "." + leaf
                s = st.copy()
                if leaf not in self.pure_self:
                    self.ev(s, "call", leaf, *args)
                outs = [Out("normal", s, tv(T(leaf, *args)))]
                r = self.raising.get(leaf)
                if r:
                    outs.append(self._raise(st, node, leaf, r, args))
                return outs
        if isinstance(f, ast.Call) and ast.unparse(f.func) == "type" and len(f.args) == 1:
            # type(x)(...): a new object of x's class
            fv, _ = it.eval(st, f)
            ft = term_of(fv[0][1]) if fv else "?"
            if ft and ft != "?":
                return [Out("normal", st, tv(T("new:" + ft, *args), none=False, truth=True))]
        return None


class Row:
    def __init__(self, o):
        self.o, self.st = o, o.st
        self.ev = tuple(o.st.ts.get("ev", ()))
        if o.kind == "raise":
            self.out = "raise:" + str(o.val.val).rsplit(".", 1)[-1]
            self.ret = None
        elif o.kind == "return":
            self.ret = term_of(o.val)
            self.out = "return:" + self.ret
        else:
            self.ret = "None"
            self.out = "return:None"

    @property
    def returns(self):
        return self.o.kind != "raise"

    def truth(self, sym):
        return self.st.facts.get(sym, (None, None))[0]

    def is_none(self, sym):
        return self.st.facts.get(sym, (None, None))[1]

    def cmp(self, a, op, b):
        """Decision recorded for `a op b` (terms), None if undecided on this row."""
        v = self.st.ts.get(("cmp", a, op, b))
        if v is not None:
            return v
        if op == "is":
            n = self.is_none(a) if b == "None" else None
            return n
        return None

    def isinst(self, sym, *fragments):
        for key, v in self.st.ts.items():
            if isinstance(key, tuple) and key and key[0] == "isinst" and key[1] == sym and all(any(fr in (c or "") for c in key[2]) for fr in fragments):
                return v
        return None

    def events(self, kind=None):
        return [e for e in self.ev if kind is None or e[0] == kind]

    def witness(self):
        return self.st.witness()

    def key(self):
        # every typestate entry takes part (a rule may keep its own facts there); only loop bookkeeping is left out
        return (self.out, tuple(sorted((str(a), str(b)) for a, b in self.st.ts.items() if not (isinstance(a, tuple) and a and a[0] == "iterated"))),
                tuple(sorted(self.st.facts.items())))


def effect_rows(ctx, fi, rule, self_cls=None, params=None, seeds=None, budget=300000, keep_external=False):
    """Interpret `fi` under `rule`; rows with anonymous external exceptions / interrupts are dropped unless asked for."""
    m = ctx.model
    a = fi.node.args
    p = dict(params or {})
    if a.vararg:
        p.setdefault(a.vararg.arg, tv(f"p:*{a.vararg.arg}", none=False))
    if a.kwarg:
        p.setdefault(a.kwarg.arg, dict_av({}, True, sym=f"p:**{a.kwarg.arg}"))
    inline = getattr(rule, "inline", frozenset())
    outs, it = run_function(m, fi, rule, self_cls if self_cls else (fi.clsq if fi.cls else None), inline=frozenset(inline), params=p, seeds=seeds, budget=budget)
    ctx.states += it.budget.steps
    rows, seen = [], set()
    for o in outs:
        if not keep_external and o.kind == "raise" and o.val.val in (BASE_TOP.val, EXT_TOP.val):
            continue
        r = Row(o)
        k = r.key()
        if k in seen:
            continue
        seen.add(k)
        rows.append(r)
    return rows


def private_helpers(m, module, cls=None, exclude=()):
    """Quals of private module-level functions of `module` and private/static methods of `cls` (candidates for inlining)."""
    out = set()
    for fi in m.repo_funcs():
        if fi.module != module:
            continue
        if fi.cls is None and fi.name.startswith("_") and fi.name not in exclude:
            out.add(fi.qual)
        elif cls is not None and fi.clsq == cls and fi.name.startswith("_") and not fi.name.startswith("__") and fi.name not in exclude:
            out.add(fi.qual)
    return frozenset(out)


def helper_closure(m, roots, stop=()):
    """Quals of `roots` plus every private method of the same class / private function of the same module they reach
    through direct calls (`self._x()`, `cls._x()`, `_x()`), transitively.  Used so that extracting a private helper out of
    an inlined function does not turn the extracted part into an opaque call."""
    out, todo = set(), list(roots)
    while todo:
        fi = todo.pop()
        if fi.qual in out:
            continue
        out.add(fi.qual)
        for n in ast.walk(fi.node):
            if not isinstance(n, ast.Call):
                continue
            f = n.func
            callee = None
            if isinstance(f, ast.Attribute) and isinstance(f.value, ast.Name) and f.value.id in ("self", "cls") and fi.cls is not None:
                if f.attr.startswith("_") and not f.attr.startswith("__") and f.attr not in stop:
                    callee = m.find_method(fi.clsq, f.attr)
            elif isinstance(f, ast.Name) and f.id.startswith("_") and f.id not in stop:
                callee = next((g for g in m.repo_funcs() if g.module == fi.module and g.cls is None and g.name == f.id), None)
            if callee is not None and callee.qual not in out and callee.qual.startswith("urllib3."):
                todo.append(callee)
    return frozenset(out)


_OPS = {"==": lambda a, b: a == b, "in": lambda a, b: a in b, "<": lambda a, b: a < b, "<=": lambda a, b: a <= b,
        ">": lambda a, b: a > b, ">=": lambda a, b: a >= b, "is": lambda a, b: a is b or (a == b and type(a) is type(b))}


_EVAL = {"add": lambda a, b: a + b, "sub": lambda a, b: a - b, "mul": lambda a, b: a * b, "floordiv": lambda a, b: a // b, "mod": lambda a, b: a % b,
         "divmod": lambda a, b: divmod(a, b), "idx": lambda a, i: a[i], "int": lambda a, *r: int(a, *r), "len": len, "lower": lambda a: a.lower(),
         "upper": lambda a: a.upper(), "range": lambda *a: range(*a), "tuple": lambda *a: tuple(a), "abs": abs, "neg": lambda a: -a, "str": str,
         "min": min, "max": max, "strip": lambda a, *r: a.strip(*r)}


def _value_of(term, assign):
    if term in assign:
        return True, assign[term]
    op, args = destruct(term)
    if op == "const":
        return True, args
    if op in _EVAL and args and all(not ("=" in a.split("(", 1)[0] and not a.startswith(("'", '"'))) for a in args):
        vals = [_value_of(a, assign) for a in args]
        if all(ok for ok, _ in vals):
            try:
                return True, _EVAL[op](*[v for _, v in vals])
            except Exception:
                return False, None
        return False, None
    if isinstance(term, str) and term.startswith("frozenset("):
        try:
            return True, eval(term, {"__builtins__": {}, "frozenset": frozenset})
        except Exception:
            return False, None
    return False, None


def _mentions(term, assign):
    from .terms import subterms as _st
    return term in assign or any(x in assign for x in _st(term))


def consistent(row, assign):
    """(consistent, decided): whether the row's recorded decisions agree with the concrete values `assign` gives to some
    terms; `decided` counts the comparisons / truth facts that could be evaluated.  Decisions on other terms are ignored."""
    decided = 0
    for k, v in row.st.ts.items():
        if not (isinstance(k, tuple) and len(k) == 4 and k[0] == "cmp" and k[2] in _OPS):
            continue
        oka, a = _value_of(k[1], assign)
        okb, b = _value_of(k[3], assign)
        if not (oka and okb) or not (_mentions(k[1], assign) or _mentions(k[3], assign)):
            continue
        try:
            r = bool(_OPS[k[2]](a, b))
        except Exception:
            continue
        decided += 1
        if r != bool(v):
            return False, decided
    for sym, (truth, none) in row.st.facts.items():
        if sym in assign:
            val = assign[sym]
            decided += 1
            if truth is not None and bool(val) != truth:
                return False, decided
            if none is not None and (val is None) != none:
                return False, decided
    return True, decided


def row_bool(r):
    """The boolean a row returns (constant, or a value whose truth is known on the row), None if undecided."""
    if not r.returns:
        return None
    if r.o.kind != "return":
        return None
    v = r.o.st.view(r.o.val)
    if v.kind == "const":
        return bool(v.val) if isinstance(v.val, (bool, int, type(None))) else None
    return v.truth


def check_decision_table(ctx, rule, fi, rows, env_of, spec, what, why=""):
    """Every returning row must return spec(env) for every completion of the atoms the row leaves undecided.
    env_of(row) -> {atom: True/False/None}; spec(env) -> bool."""
    import itertools
    n = 0
    for r in rows:
        if not r.returns:
            continue
        n += 1
        env = env_of(r)
        val = row_bool(r)
        names = list(env)
        want = set()
        for combo in itertools.product([True, False], repeat=len(names)):
            e = dict(zip(names, combo))
            if any(env[k] is not None and env[k] != e[k] for k in names):
                continue
            want.add(bool(spec(e)))
        ok = val is not None and want == {val}
        desc = ", ".join(f"{k}={v}" for k, v in env.items() if v is not None)
        ctx.ob(rule, fi.qual, f"{what} row [{desc}] -> {val}", ok, "" if ok else (why + f" (specification gives {sorted(want)} on this row)").strip(), witness=r.witness(), node=fi.node)
    return n


def bind(names, args):
    """name -> term for call arguments rendered by GenRule (`t`, `t`, `k=t`, ...), given the callee's parameter names."""
    out = {}
    i = 0
    for a in args:
        head = a.split("(", 1)[0]
        if "=" in head and not a.startswith(("'", '"', "b'", 'b"')):
            k, v = a.split("=", 1)
            out[k] = v
        else:
            if i < len(names):
                out[names[i]] = a
            else:
                out[f"#{i}"] = a
            i += 1
    return out


ARITH = {"add", "sub", "mul", "neg", "abs", "min", "max", "float", "int", "const", "truediv", "floordiv", "mod", "pow"}


def within_vocabulary(term, ops):
    """Does `term` use only operations of the given vocabulary (atoms and constants are always allowed)?  A rule that
    expects a particular idiom decides exactly inside its vocabulary and falls back to provenance outside it (DESIGN 13.2)."""
    from .terms import subterms as _st
    for x in _st(term):
        op, _ = destruct(x)
        if op is None or op == "const":
            continue
        if op not in ops:
            return False
    return True
