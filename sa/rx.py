"""E7 - regex structure analysis on re._parser ASTs (no matching of inputs)."""
from __future__ import annotations

import re
import re._constants as sc
import re._parser as sp

PROBE = [chr(i) for i in range(128)] + ["\x85", "\xe9", "中", " ", "\U0001f600", "\u0663", "\uff15"]  # incl. two non-ASCII decimal digits (what \\d means in a str pattern)
PROBE_SET = set(PROBE)

_CAT = {
    sc.CATEGORY_DIGIT: r"\d", sc.CATEGORY_NOT_DIGIT: r"\D", sc.CATEGORY_SPACE: r"\s",
    sc.CATEGORY_NOT_SPACE: r"\S", sc.CATEGORY_WORD: r"\w", sc.CATEGORY_NOT_WORD: r"\W",
}


def parse(pattern, flags=0):
    return sp.parse(pattern, int(flags))


def _is_bytes(pattern):
    return isinstance(pattern, (bytes, bytearray))


def class_set(items, ignorecase=False, ascii_only=False):
    """Set of probe characters matched by the item list of an IN node."""
    neg = False
    s = set()
    for op, av in items:
        if op is sc.NEGATE:
            neg = True
        elif op is sc.LITERAL:
            s.add(chr(av))
        elif op is sc.RANGE:
            s |= {c for c in PROBE if av[0] <= ord(c) <= av[1]}
        elif op is sc.CATEGORY:
            fl = re.ASCII if ascii_only else 0
            s |= {c for c in PROBE if re.fullmatch(_CAT[av], c, fl)}
    if ignorecase:
        s |= {c.lower() for c in s} | {c.upper() for c in s if len(c.upper()) == 1}
    if ascii_only:
        universe = {c for c in PROBE if ord(c) < 256}
    else:
        universe = PROBE_SET
    return (universe - s) if neg else (s & universe if ascii_only else s)


def walk(p):
    for op, av in p:
        yield op, av
        if op is sc.SUBPATTERN:
            yield from walk(av[3])
        elif op in (sc.MAX_REPEAT, sc.MIN_REPEAT, sc.POSSESSIVE_REPEAT):
            yield from walk(av[2])
        elif op is sc.BRANCH:
            for b in av[1]:
                yield from walk(b)
        elif op in (sc.ASSERT, sc.ASSERT_NOT):
            yield from walk(av[1])
        elif op is sc.ATOMIC_GROUP:
            yield from walk(av)


def groups(p):
    """group number -> sub-pattern"""
    return {av[0]: av[3] for op, av in walk(p) if op is sc.SUBPATTERN and av[0] is not None}


def end_anchor(p):
    """'Z' for \\Z, '$' for $ (admits a trailing newline under match/search), None."""
    data = list(p)
    while data and data[-1][0] is sc.SUBPATTERN:
        data = list(data[-1][1][3])
    if not data:
        return None
    op, av = data[-1]
    if op is sc.AT:
        if av is sc.AT_END_STRING:
            return "Z"
        if av is sc.AT_END:
            return "$"
    if op is sc.BRANCH:
        kinds = {end_anchor(b) for b in av[1]}
        return kinds.pop() if len(kinds) == 1 else None
    return None


def start_anchor(p):
    data = list(p)
    while data and data[0][0] is sc.SUBPATTERN:
        data = list(data[0][1][3])
    if not data:
        return None
    op, av = data[0]
    if op is sc.AT and av in (sc.AT_BEGINNING, sc.AT_BEGINNING_STRING):
        return "A" if av is sc.AT_BEGINNING_STRING else "^"
    return None


def any_chars(p, dotall=False, ignorecase=False, ascii_only=False):
    """Over-approximation of the set of probe characters that can occur anywhere in a match."""
    s = set()
    for op, av in walk(p):
        if op is sc.LITERAL:
            c = chr(av)
            s.add(c)
            if ignorecase:
                s |= {c.lower(), c.upper()}
        elif op is sc.NOT_LITERAL:
            s |= PROBE_SET - {chr(av)}
        elif op is sc.ANY:
            s |= PROBE_SET if dotall else PROBE_SET - {"\n"}
        elif op is sc.IN:
            s |= class_set(av, ignorecase, ascii_only)
    return s


def first_set(p):
    s = set()
    nullable = True
    for op, av in p:
        if op is sc.AT:
            continue
        fs, nl = first_of(op, av)
        s |= fs
        if not nl:
            nullable = False
            break
    return s, nullable


def first_of(op, av):
    if op is sc.LITERAL:
        return {chr(av)}, False
    if op is sc.NOT_LITERAL:
        return PROBE_SET - {chr(av)}, False
    if op is sc.ANY:
        return PROBE_SET - {"\n"}, False
    if op is sc.IN:
        return class_set(av), False
    if op is sc.SUBPATTERN:
        return first_set(av[3])
    if op is sc.BRANCH:
        s = set()
        nl = False
        for b in av[1]:
            fs, n = first_set(b)
            s |= fs
            nl = nl or n
        return s, nl
    if op in (sc.MAX_REPEAT, sc.MIN_REPEAT, sc.POSSESSIVE_REPEAT):
        fs, n = first_set(av[2])
        return fs, n or av[0] == 0
    if op in (sc.ASSERT, sc.ASSERT_NOT):
        return set(), True
    return set(PROBE_SET), True


def _unbounded(av):
    return av[1] is sc.MAXREPEAT


def redos(p, path=""):
    """Structural super-linear shapes.  Returns list of (kind, path[, detail])."""
    issues = []
    data = list(p)
    for i, (op, av) in enumerate(data):
        if op in (sc.MAX_REPEAT, sc.MIN_REPEAT):
            lo, hi, body = av
            if _unbounded(av):
                body_l = list(body)
                # (x*)* / (x+)+ : an unbounded quantifier directly inside an unbounded one
                # whose inner continuation overlaps the inner first set
                for op2, av2 in walk(body):
                    if op2 in (sc.MAX_REPEAT, sc.MIN_REPEAT) and _unbounded(av2):
                        inner_first, _ = first_set(av2[2])
                        # what can follow the inner repeat inside the body, or the body restarting
                        body_first, _ = first_set(body_l)
                        if inner_first & body_first:
                            # a delimiter that must be consumed between iterations makes it safe
                            if not _has_mandatory_disjoint_prefix(body_l, inner_first):
                                issues.append(("nested-unbounded", path))
                for op2, av2 in walk(body):
                    if op2 is sc.BRANCH:
                        fss = [first_set(b)[0] for b in av2[1]]
                        for a in range(len(fss)):
                            for b in range(a + 1, len(fss)):
                                if fss[a] & fss[b]:
                                    issues.append(("overlapping-alternatives-in-star", path, sorted(fss[a] & fss[b])[:5]))
                if i + 1 < len(data):
                    op3, av3 = data[i + 1]
                    if op3 in (sc.MAX_REPEAT, sc.MIN_REPEAT) and _unbounded(av3):
                        a, _ = first_set(body)
                        b, _ = first_set(av3[2])
                        if a & b and i + 2 < len(data):
                            issues.append(("adjacent-overlapping-unbounded", path))
            issues += redos(body, path + "/rep")
        elif op is sc.SUBPATTERN:
            issues += redos(av[3], path + "/grp")
        elif op is sc.BRANCH:
            for k, b in enumerate(av[1]):
                issues += redos(b, path + f"/alt{k}")
        elif op in (sc.ASSERT, sc.ASSERT_NOT):
            issues += redos(av[1], path + "/look")
    return issues


def _has_mandatory_disjoint_prefix(body, inner_first):
    """True if each iteration of `body` must start with a char outside inner_first."""
    for op, av in body:
        if op is sc.AT:
            continue
        fs, nullable = first_of(op, av)
        if nullable:
            return False
        return not (fs & inner_first)
    return False


def max_repeat_of_class(p, pred):
    """Largest upper repetition bound among repeats whose body is a single class/literal
    accepted by pred(set). MAXREPEAT -> None (unbounded)."""
    worst = 0
    for op, av in walk(p):
        if op in (sc.MAX_REPEAT, sc.MIN_REPEAT):
            body = list(av[2])
            if len(body) == 1 and body[0][0] in (sc.IN, sc.LITERAL):
                fs, _ = first_of(*body[0])
                if pred(fs):
                    if _unbounded(av):
                        return None
                    worst = max(worst, av[1])
    return worst


def guard_excludes(pattern, flags, method, forbidden):
    """Does `<compiled pattern>.<method>(s)` being truthy guarantee that s contains none of `forbidden`?
    -> (bool, reason).  Structural: the characters any match can contain, and whether the match must span all of s."""
    import re as _re

    flags = int(flags or 0)
    p = parse(pattern, flags)
    chars = any_chars(p, dotall=bool(flags & _re.DOTALL), ignorecase=bool(flags & _re.IGNORECASE), ascii_only=bool(flags & _re.ASCII))
    hit = sorted(set(forbidden) & chars)
    if hit:
        return False, f"the pattern itself can match {hit!r}"
    if method == "fullmatch":
        return True, "fullmatch over a class excluding them"
    if method == "search" and start_anchor(p) is None:
        return False, "search() is not anchored at the start: text before the match is unconstrained"
    if method not in ("match", "search"):
        return False, f"{method}() does not constrain the whole string"
    if flags & _re.MULTILINE:
        return False, "MULTILINE anchors constrain one line only"
    ea = end_anchor(p)
    if ea == "Z":
        return True, "anchored with \\Z"
    if ea == "$":
        if "\n" in forbidden:
            return False, "`$` also matches before a trailing newline: a value ending in LF passes the guard"
        return True, "anchored with $"
    return False, "the match need not reach the end of the string"


def percent_escapes(p):
    """Every place where a literal '%' is directly followed by a counted repeat of a character class: [(count_min, count_max, items)].
    Used to decide that what a pattern accepts as a percent-escape is '%' + ASCII hex digits."""
    out = []

    def seq(data):
        data = list(data)
        for i, (op, av) in enumerate(data):
            if op is sc.LITERAL and av == ord("%") and i + 1 < len(data):
                op2, av2 = data[i + 1]
                if op2 in (sc.MAX_REPEAT, sc.MIN_REPEAT, sc.POSSESSIVE_REPEAT):
                    inner = list(av2[2])
                    if len(inner) == 1 and inner[0][0] is sc.IN:
                        out.append((av2[0], av2[1], inner[0][1]))
                    elif len(inner) == 1 and inner[0][0] is sc.CATEGORY:
                        out.append((av2[0], av2[1], [inner[0]]))
                elif op2 is sc.IN and i + 2 < len(data) and data[i + 2][0] is sc.IN:
                    out.append((1, 1, av2))
                    out.append((1, 1, data[i + 2][1]))
            if op is sc.SUBPATTERN:
                seq(av[3])
            elif op in (sc.MAX_REPEAT, sc.MIN_REPEAT, sc.POSSESSIVE_REPEAT):
                seq(av[2])
            elif op is sc.BRANCH:
                for b in av[1]:
                    seq(b)
            elif op in (sc.ASSERT, sc.ASSERT_NOT):
                seq(av[1])
            elif op is sc.ATOMIC_GROUP:
                seq(av)
    seq(p)
    return out
