"""Both-ways self-test of the checkers.

Each mutant is a text edit of one source file that still compiles and breaks
one rule instance; each benign edit is behaviour-preserving and must stay silent.
The edit is applied to a scratch copy of <repo>/src outside /repo and /verif, the
property's quick check is run with VERIF_REPO pointing at the copy, and the copy
is deleted.  Used by the thorough tier and during development:

    /venv/bin/python -m sa.selftest [C01 ...] [--jobs 16] [--only NAME]
"""
from __future__ import annotations

import argparse
import concurrent.futures as cf
import importlib
import os
import re
import shutil
import subprocess
import sys
import tempfile

VERIF = os.path.dirname(os.path.dirname(os.path.abspath(__file__)))
PY = sys.executable


def load_catalog():
    sys.path.insert(0, os.path.join(VERIF, "selftest"))
    try:
        mod = importlib.import_module("mutants")
        importlib.reload(mod)
    finally:
        sys.path.pop(0)
    return mod.MUTANTS


def apply_edit(src_root, mutant):
    """Returns None if applied, or a reason string if not applicable on this tree."""
    if mutant.get("patch"):
        pf = os.path.join(VERIF, mutant["patch"])
        if not os.path.exists(pf):
            return f"patch {mutant['patch']} missing"
        cmd = ["git", "apply", "--whitespace=nowarn"] + (["-R"] if mutant.get("reverse") else []) + [pf]
        r = subprocess.run(cmd, cwd=os.path.dirname(src_root), capture_output=True, text=True)
        if r.returncode != 0:
            return "patch does not apply to this tree: " + r.stderr.strip()[:120]
        return None
    edits = mutant.get("edits") or [(mutant["file"], mutant["old"], mutant["new"])]
    for f, old, new in edits:
        p = os.path.join(src_root, "urllib3", f)
        if not os.path.exists(p):
            return f"file {f} missing"
        s = open(p).read()
        if mutant.get("regex"):
            s2, n = re.subn(old, new, s, count=1, flags=re.S)
            if n == 0:
                return f"pattern not found in {f}"
        else:
            if s.count(old) < 1:
                return f"text not found in {f}"
            s2 = s.replace(old, new, 1)
        try:
            compile(s2, p, "exec")
        except SyntaxError as e:
            return f"mutant does not compile: {e}"
        open(p, "w").write(s2)
    return None


def run_one(mutant, repo=None, keep=False):
    repo = repo or os.environ.get("VERIF_REPO", "/repo")
    tmp = tempfile.mkdtemp(prefix="sa_mut_", dir=os.environ.get("VERIF_SCRATCH", "/tmp"))
    try:
        shutil.copytree(os.path.join(repo, "src"), os.path.join(tmp, "src"), ignore=shutil.ignore_patterns("__pycache__"))
        why = apply_edit(os.path.join(tmp, "src"), mutant)
        if why:
            return {"name": mutant["name"], "prop": mutant["prop"], "status": "inapplicable", "why": why}
        env = dict(os.environ, VERIF_REPO=tmp, VERIF_EVIDENCE_DIR=os.path.join(tmp, "ev"), PYTHONPATH=VERIF)
        env.pop("VERIF_TIER", None)
        r = subprocess.run([PY, "-m", "sa.check", mutant["prop"], "--tier", "quick"], cwd=VERIF, env=env,
                           capture_output=True, text=True, timeout=600)
        out = r.stdout
        rules = sorted(set(re.findall(r"rule (\S+) fails", out)))
        benign = mutant.get("benign", False)
        expect_rule = mutant.get("rule")
        if benign:
            ok = r.returncode == 0
        else:
            ok = r.returncode == 1 and "VIOLATION property=" in out and (expect_rule is None or any(x.startswith(expect_rule) for x in rules))
        return {"name": mutant["name"], "prop": mutant["prop"], "status": "ok" if ok else "MISS", "exit": r.returncode,
                "rules": rules, "benign": benign, "tail": out[-600:] if not ok else ""}
    finally:
        if not keep:
            shutil.rmtree(tmp, ignore_errors=True)


def run_many(mutants, jobs=16):
    res = []
    with cf.ThreadPoolExecutor(max_workers=jobs) as ex:
        for r in ex.map(run_one, mutants):
            res.append(r)
    return res


def main(argv=None):
    ap = argparse.ArgumentParser()
    ap.add_argument("props", nargs="*")
    ap.add_argument("--jobs", type=int, default=16)
    ap.add_argument("--only")
    ap.add_argument("--cross", action="store_true", help="also run every benign patch under the other properties whose code it touches")
    ap.add_argument("-v", action="store_true")
    a = ap.parse_args(argv)
    cat = load_catalog()
    props = {p.upper() for p in a.props}
    sel = [m for m in cat if (not props or m["prop"] in props) and (not a.only or a.only in m["name"]) and (a.cross or not m.get("cross"))]
    res = run_many(sel, a.jobs)
    bad = 0
    for r in res:
        flag = r["status"]
        if flag != "ok":
            bad += 1
        print(f"{flag:12s} {r['prop']} {r['name']:55s} exit={r.get('exit')} rules={r.get('rules')} {r.get('why', '')}")
        if (flag == "MISS" or a.v) and r.get("tail"):
            print("      " + r["tail"].replace("\n", "\n      "))
    print(f"{len(res)} variants, {bad} not as expected")
    return 1 if bad else 0


if __name__ == "__main__":
    sys.exit(main())
