"""E10 - Herbrand-term evaluation (symbolic value numbering, no solver).

A TermRule makes the interpreter compute, for expressions built from operations whose meaning is known (str/bytes
methods, list displays, slicing, concatenation, join, len, min/max, arithmetic), a canonical *term string* and stores
it in the value's `sym`.  Two expressions that compute the same value by the same known operations get the same term,
whatever temporaries, local names, statement order or layout the source uses; facts about a term (truthiness,
None-ness) are correlated through the symbol table of the interpreter.  Rules then compare terms with the terms of a
specification instead of comparing source text.

Terms are strings:   p:key   'lit'   lower(p:key)   list(p:key,p:val)   slice(entry(lower(p:key)),1,,)
                     join(', ',slice(...))   add(a,b)   idx(x,-1)   call:<text>(args)  (opaque: unknown function)
A term containing `call:` or `?` has an uninterpreted part: a rule that cannot match such a term must answer
"idiom not recognised" (ANALYSIS-ERROR), not "violation".
"""
from __future__ import annotations

import ast
import copy
import itertools

from .interp import AV, UNK, BaseRule, Out, const, exc

PURE_STR_METHODS = {
    "lower", "upper", "strip", "lstrip", "rstrip", "decode", "encode", "casefold", "title", "capitalize", "swapcase",
    "startswith", "endswith", "replace", "split", "rsplit", "partition", "rpartition", "format", "zfill", "ljust", "rjust",
    "isdigit", "isalpha", "isascii", "removeprefix", "removesuffix", "splitlines", "count", "find", "rfind", "index", "hex",
    "translate", "join", "copy", "keys", "values", "items", "get",
    "intersection", "union", "difference", "symmetric_difference", "issubset", "issuperset", "isdisjoint",
}
PURE_BUILTINS = {"len", "str", "bytes", "int", "float", "bool", "min", "max", "abs", "hex", "ord", "chr", "list", "tuple", "set",
                 "frozenset", "sorted", "reversed", "sum", "repr", "type", "iter", "next", "enumerate", "zip", "dict", "bytearray", "memoryview", "getattr", "hasattr", "range", "divmod", "round", "pow", "filter", "map"}

_fresh = itertools.count(1)


def term_of(av: AV) -> str:
    """Canonical term of an abstract value."""
    if av is None:
        return "?"
    if av.kind == "const":
        r = repr(av.val) if not isinstance(av.val, (frozenset, set)) else "frozenset({" + ", ".join(sorted(map(repr, av.val))) + "})"
        STRUCT.setdefault(r, ("const", av.val))
        return r
    if av.sym:
        return av.sym
    if av.kind == "tuple":
        return T("tuple", *[term_of(x) for x in av.val])
    if av.kind == "self":
        return "self"
    if av.kind == "obj":
        return f"obj:{av.val}"
    if av.kind == "exc":
        return f"exc:{av.val}"
    return "?"


def is_opaque(term: str) -> bool:
    return "call:" in term or "?" in term


STRUCT: dict = {}  # term string -> (op, args) for terms built by T(); ("const", value) for constants


def K(value) -> str:
    """Term of a constant (registered, so that normal forms see it as a literal)."""
    return term_of(const(value))


def T(op, *args) -> str:
    if op == "idx" and len(args) == 2 and args[1].isdigit():
        # x[:n][i] is x[i] for 0 <= i < n
        so = STRUCT.get(args[0])
        if so is not None and so[0] == "slice" and len(so[1]) == 4 and so[1][1] in ("", "0") and so[1][3] == "" and so[1][2].isdigit() and int(args[1]) < int(so[1][2]):
            args = (so[1][0], args[1])
    t = f"{op}(" + ",".join(args) + ")"
    STRUCT.setdefault(t, (op, tuple(args)))
    return t


def destruct(t):
    """(op, args) of a term built by T(), ("const", value) for a constant, (None, ()) for an atom."""
    r = STRUCT.get(t)
    if r is not None:
        return r
    if t and (t[0] in "'\"([{-0123456789" or t.startswith(("b'", 'b"', "True", "False", "None", "frozenset("))):
        try:
            v = ast.literal_eval(t)
        except Exception:
            return (None, ())
        STRUCT[t] = ("const", v)
        return STRUCT[t]
    return (None, ())


def tv(term, **kw) -> AV:
    return AV("unk", sym=term, **kw)


class TermRule(BaseRule):
    unroll_const_loops = True  # `for x in ("a", "b")` is executed element by element
    """Mixin: builds terms for pure operations.  Subclasses override `call_hook` / `subscript_hook` first."""

    wants_compose = True
    wants_subscript = True
    opaque_calls_raise = False

    def term(self, op, *args):
        return T(op, *args)

    # ---- hooks for subclasses
    def call_hook(self, it, st, node, recv, pos, kw):
        return None

    def subscript_hook(self, it, st, node, base, parts, is_slice):
        return None

    def isinstance(self, it, st, node, av, classes):
        """isinstance of a constant against typing / collections.abc classes is decided, not forked."""
        if av.kind in ("const", "tuple"):
            val = av.val if av.kind == "const" else tuple(av.val)
            import collections.abc as cabc
            import builtins as _b

            res = []
            for c in classes:
                if c is None:
                    return None
                leaf = c.rsplit(".", 1)[-1]
                if c.startswith("builtins.") and hasattr(_b, leaf):
                    res.append(isinstance(val, getattr(_b, leaf)))
                elif c.startswith(("typing.", "collections.abc.")) and hasattr(cabc, leaf):
                    res.append(isinstance(val, getattr(cabc, leaf)))
                elif c.startswith("urllib3."):
                    res.append(False)
                else:
                    return None
            return any(res)
        return None

    # ---- composition
    def compose(self, it, st, node, children):
        avs = [av for _, av in children]
        if isinstance(node, ast.List):
            parts = []
            for ch, av in children:
                parts.append(T("star", term_of(av)) if isinstance(ch, ast.Starred) else term_of(av))
            return tv(T("list", *parts), none=False, truth=bool(parts) if not any(isinstance(c, ast.Starred) for c, _ in children) else None)
        if isinstance(node, ast.Set):
            return tv(T("set", *sorted(term_of(a) for a in avs)), none=False)
        if isinstance(node, ast.BinOp):
            opn = {ast.Add: "add", ast.Sub: "sub", ast.Mult: "mul", ast.Mod: "mod", ast.FloorDiv: "floordiv", ast.Div: "div",
                   ast.BitOr: "bitor", ast.BitAnd: "bitand", ast.Pow: "pow", ast.LShift: "shl", ast.RShift: "shr", ast.BitXor: "xor"}.get(type(node.op), "binop")
            a, b = avs
            if a.kind == "const" and b.kind == "const":
                try:
                    return const(_fold_binop(node.op, a.val, b.val))
                except Exception:
                    pass
            if opn == "sub" and a.sym and a.sym == b.sym:
                return const(0)  # x - x
            return tv(T(opn, term_of(a), term_of(b)), none=False)
        if isinstance(node, ast.UnaryOp) and isinstance(node.op, ast.USub) and len(avs) == 1:
            if avs[0].kind == "const" and isinstance(avs[0].val, (int, float)):
                return const(-avs[0].val)
            return tv(T("neg", term_of(avs[0])), none=False)
        if isinstance(node, ast.JoinedStr):
            parts = []
            for ch, av in children:
                if isinstance(ch, ast.Constant):
                    parts.append(term_of(const(ch.value)))
                elif isinstance(ch, ast.FormattedValue) and (ch.format_spec is not None or ch.conversion not in (-1, None)):
                    # {x:02X} / {x!r} are not x: keep the format spec and conversion in the term
                    spec = ast.unparse(ch.format_spec)[2:-1] if ch.format_spec is not None else ""
                    conv = {115: "s", 114: "r", 97: "a"}.get(ch.conversion, "")
                    parts.append(T("fmt", term_of(av), term_of(const(spec)), term_of(const(conv))))
                else:
                    parts.append(term_of(av))
            return tv(T("fstr", *parts), none=False, truth=True if any(isinstance(ch, ast.Constant) and ch.value for ch, _ in children) else None)
        if isinstance(node, ast.Dict):
            return tv(T("dict", *[term_of(a) for a in avs]), none=False)
        return None

    def augassign(self, it, st, stmt, v):
        """x op= y  is  x = x op y  as a term"""
        load = copy.deepcopy(stmt.target)
        for n in ast.walk(load):
            if hasattr(n, "ctx"):
                n.ctx = ast.Load()
        vals, _ = it.eval(st, load)
        if len(vals) != 1:
            return None
        cur = vals[0][1]
        opn = {ast.Add: "add", ast.Sub: "sub", ast.Mult: "mul", ast.BitOr: "bitor", ast.BitAnd: "bitand", ast.Mod: "mod", ast.FloorDiv: "floordiv", ast.Div: "div"}.get(type(stmt.op))
        if opn is None:
            return None
        if cur.kind == "const" and v.kind == "const":
            try:
                return const(_fold_binop(stmt.op, cur.val, v.val))
            except Exception:
                pass
        if opn == "add" and cur.sym and cur.sym.startswith("list(") and isinstance(stmt.target, ast.Name):
            # xs += ys  is  xs.extend(ys)
            op_, elts_ = destruct(cur.sym)
            vt = term_of(v)
            vop, vargs = destruct(vt)
            if st.ts.get("loops", ()):
                return None
            if vop == "list":
                return tv(T("list", *elts_, *vargs), none=False, truth=True)
            if vop in ("listcomp", "gen", "setcomp") and len(vargs) == 2:
                return tv(T("list", *elts_, T("rep", vargs[0], vargs[1])), none=False, truth=True)
            if vt and vt != "?":
                return tv(T("list", *elts_, T("star", vt)), none=False, truth=True)
            return None
        return tv(T(opn, term_of(cur), term_of(v)), none=False)

    def subscript(self, it, st, node, base, parts, is_slice):
        r = self.subscript_hook(it, st, node, base, parts, is_slice)
        if r is not None:
            return r
        b = term_of(base)
        if is_slice:
            lo, hi, step = parts
            return tv(T("slice", b, *[("" if (p.kind == "const" and p.val is None) else term_of(p)) for p in (lo, hi, step)]), none=False)
        res = tv(T("idx", b, term_of(parts[0])))
        rz = getattr(self, "raising", None) or {}
        if rz.get("subscript") and isinstance(node.ctx, ast.Load):
            # a lookup declared as possibly failing (`try: m[k] / except KeyError:` is the lookup-or-insert idiom)
            s2 = st.copy()
            s2.log(node, f"{ast.unparse(node)[:40]} raises {rz['subscript']}")
            present = st.copy()
            present.ts[("cmp", term_of(parts[0]), "in", b)] = True
            s2.ts[("cmp", term_of(parts[0]), "in", b)] = False
            return [Out("normal", present, res), Out("raise", s2, exc(rz["subscript"]))]
        return res

    # ---- one symbolic iteration per loop (the element is `each(<iterable>)`); appends made inside are marked as repeated
    def for_iter(self, it, st, stmt, itv):
        if (itv.kind == "tuple" and not itv.val) or (itv.kind == "const" and not itv.val):
            return [(st.copy(), False)]
        I = term_of(itv)
        truthy_only = False
        fop, fa = destruct(I)
        if fop == "filter" and len(fa) == 2 and fa[0] == "None":
            # for x in filter(None, xs): the walk over xs restricted to its truthy elements
            I, truthy_only = fa[1], True
        key = ("iterated", I, stmt.lineno)
        if st.ts.get(key):
            s = st.copy()
            s.ts["loops"] = tuple(x for x in s.ts.get("loops", ()) if x != I)
            return [(s, False)]
        s = st.copy()
        s.ts[key] = True
        s.ts["loops"] = s.ts.get("loops", ()) + (I,)
        if truthy_only:
            s.facts[T("each", I)] = (True, False)
        if isinstance(stmt.target, (ast.Tuple, ast.List)) and not any(isinstance(t, ast.Starred) for t in stmt.target.elts):
            n = len(stmt.target.elts)
            it.assign(s, stmt.target, AV("tuple", tuple(tv(T(f"each{i}", I)) for i in range(n)), truth=True, none=False))
        else:
            it.assign(s, stmt.target, tv(T("each", I)))
        iop, iargs = destruct(I)
        if (iop in ("split", "rsplit") and len(iargs) >= 2) or iop in ("partition", "rpartition"):
            return [(s, True)]  # str.split(sep) / partition never yield an empty sequence: no zero-iteration path
        return [(s, True), (st.copy(), False)]

    def comprehension(self, it, st, node):
        if (isinstance(node, (ast.GeneratorExp, ast.ListComp)) and len(node.generators) == 1 and not node.generators[0].ifs
                and isinstance(node.generators[0].iter, (ast.Tuple, ast.List)) and node.generators[0].iter.elts
                and all(isinstance(e, ast.Constant) for e in node.generators[0].iter.elts) and isinstance(node.generators[0].target, ast.Name)):
            # (E(x) for x in ("a", "b", "c")) is the tuple (E("a"), E("b"), E("c"))
            g = node.generators[0]
            cur, raises = [(st, [])], []
            for e in g.iter.elts:
                nxt = []
                for s, acc in cur:
                    s = s.copy()
                    it.assign(s, g.target, const(e.value))
                    vals, r = it.eval(s, node.elt)
                    raises += r
                    nxt += [(s2, acc + [av]) for s2, av in vals]
                cur = nxt
            return [(s, AV("tuple", tuple(acc), truth=True, none=False)) for s, acc in cur], raises
        if isinstance(node, (ast.GeneratorExp, ast.ListComp, ast.SetComp, ast.DictComp)) and len(node.generators) == 1:
            g = node.generators[0]
            vals, raises = it.eval(st, g.iter)
            if len(vals) != 1:
                return None
            s0, itv = vals[0]
            I = term_of(itv)
            s = s0.copy()
            if isinstance(g.target, (ast.Tuple, ast.List)) and not any(isinstance(t_, (ast.Starred, ast.Tuple, ast.List)) for t_ in g.target.elts):
                # `for k, v in I`: the components of the generic element, named as the statement loop names them
                it.assign(s, g.target, AV("tuple", tuple(tv(T(f"each{i}", I)) for i in range(len(g.target.elts))), truth=True, none=False))
            else:
                it.assign(s, g.target, tv(T("each", I), none=False))
            conds = [self.cond_term(it, s, c) for c in g.ifs]
            if isinstance(node, ast.DictComp):
                kv_, r2 = it.eval(s, node.key)
                vv_, r3 = it.eval(s, node.value)
                if len(kv_) != 1 or len(vv_) != 1:
                    return None
                er = [o for o in list(r2) + list(r3) if o.kind == "raise"]
                return [(s0, tv(T("dictcomp", term_of(kv_[0][1]), term_of(vv_[0][1]), I, *conds), none=False))], list(raises) + er
            ev_, r2 = it.eval(s, node.elt)
            if len(ev_) != 1:
                return None
            kind = {ast.GeneratorExp: "gen", ast.ListComp: "listcomp", ast.SetComp: "setcomp"}[type(node)]
            # an element expression that may raise (int(x), ...) makes the whole comprehension raise (eagerly for list/set displays)
            er = [o for o in r2 if o.kind == "raise"] if kind != "gen" else []
            return [(s0, tv(T(kind, term_of(ev_[0][1]), I, *conds), none=False))], list(raises) + er
        return None

    def cond_term(self, it, st, e):
        """A filter condition as a term (no forking): cmp:<op>(a, b), not(c), and(..)/or(..), truthy(x)."""
        if isinstance(e, ast.UnaryOp) and isinstance(e.op, ast.Not):
            return T("not", self.cond_term(it, st, e.operand))
        if isinstance(e, ast.BoolOp):
            return T("and" if isinstance(e.op, ast.And) else "or", *[self.cond_term(it, st, v) for v in e.values])
        if isinstance(e, ast.Compare) and len(e.ops) == 1:
            opn = {ast.Is: "is", ast.IsNot: "isnot", ast.Eq: "eq", ast.NotEq: "ne", ast.In: "in", ast.NotIn: "notin", ast.Lt: "lt", ast.LtE: "le", ast.Gt: "gt", ast.GtE: "ge"}.get(type(e.ops[0]), "cmp")
            lv, _ = it.eval(st, e.left)
            rv, _ = it.eval(st, e.comparators[0])
            return T("cmp:" + opn, term_of(lv[0][1]) if lv else "?", term_of(rv[0][1]) if rv else "?")
        if isinstance(e, ast.Call) and isinstance(e.func, ast.Name) and e.func.id == "isinstance" and len(e.args) == 2:
            lv, _ = it.eval(st, e.args[0])
            return T("isinstance", term_of(lv[0][1]) if lv else "?", ast.unparse(e.args[1]))
        vals, _ = it.eval(st, e)
        return T("truthy", term_of(vals[0][1]) if len(vals) == 1 else "?")

    def _list_builder(self, it, st, node, recv, pos):
        """append/extend on a local list (add/update on a local set) whose content is known: the variable is re-bound to the
        longer list/set term.  `xs.extend(E(x) for x in I)` adds the same elements as `for x in I: xs.append(E(x))`."""
        f = node.func
        own_attr = isinstance(f, ast.Attribute) and isinstance(f.value, ast.Attribute) and isinstance(f.value.value, ast.Name) and f.value.value.id == "self"
        if not (isinstance(f, ast.Attribute) and (isinstance(f.value, ast.Name) or own_attr) and recv is not None and recv.sym and recv.sym.startswith(("list(", "set(", "listcomp(", "setcomp("))):
            return None
        if own_attr and f.attr in ("append", "extend", "add", "update") and len(pos) == 1:
            # self.xs = []; ... self.xs.append(x): the field is re-bound to the longer list (a store the rows show)
            op, elts = destruct(recv.sym)
            if op in ("list", "set") and {"append": "list", "extend": "list", "add": "set", "update": "set"}[f.attr] == op:
                x = term_of(pos[0])
                if f.attr in ("extend", "update"):
                    gop, gargs = destruct(x)
                    x = T("rep", gargs[0], gargs[1]) if gop in ("gen", "listcomp", "setcomp") and len(gargs) == 2 else T("star", x)
                loops = st.ts.get("loops", ())
                if loops:
                    x = T("rep", x, *loops)
                s = st.copy()
                tgt = ast.copy_location(ast.Attribute(value=f.value.value, attr=f.value.attr, ctx=ast.Store()), f.value)
                it.assign(s, tgt, tv(T(op, *elts, x), none=False, truth=True))
                return [Out("normal", s, const(None))]
            return None
        if own_attr:
            return None
        op, elts = destruct(recv.sym)
        if op in ("listcomp", "setcomp"):
            # a list built by a comprehension and then appended to: list(<its elements>, x)
            first = T("rep", elts[0], elts[1]) if len(elts) == 2 else T("star", recv.sym)
            op, elts = ("list" if op == "listcomp" else "set"), (first,)
        if f.attr == "insert" and op == "list" and len(pos) == 2 and pos[0].kind == "const" and pos[0].val == 0 and not st.ts.get("loops", ()):
            # xs.insert(0, x): x becomes the first element
            s = st.copy()
            s.env[it.var(f.value.id)] = tv(T(op, term_of(pos[1]), *elts), none=False, truth=True)
            return [Out("normal", s, const(None))]
        kind = {"append": "list", "extend": "list", "add": "set", "update": "set"}.get(f.attr)
        if op != kind or len(pos) != 1:
            return None
        loops = st.ts.get("loops", ())
        x = term_of(pos[0])
        if f.attr in ("extend", "update"):
            gop, gargs = destruct(x)
            if gop in ("gen", "listcomp", "setcomp") and len(gargs) == 2:
                x = T("rep", gargs[0], gargs[1])  # one element per element of the iterable, as the explicit loop would add
            else:
                x = T("star", x)
        if loops:
            x = T("rep", x, *loops)  # appended once per iteration of the enclosing loop(s)
        s = st.copy()
        s.env[it.var(f.value.id)] = tv(T(op, *elts, x), none=False, truth=True)
        return [Out("normal", s, const(None))]

    def _desugar_any_all(self, it, st, node):
        """any(E(x) for x in (a, b, ...)) == E(a) or E(b) or ...;  all(...) == ... and ...   (literal iterables only)"""
        f = node.func
        if not (isinstance(f, ast.Name) and f.id in ("any", "all") and len(node.args) == 1 and not node.keywords):
            return None
        g = node.args[0]
        if (isinstance(g, (ast.GeneratorExp, ast.ListComp)) and len(g.generators) == 1 and not isinstance(g.generators[0].iter, (ast.Tuple, ast.List))):
            return self._quantifier(it, st, node, g, f.id)
        if not (isinstance(g, (ast.GeneratorExp, ast.ListComp)) and len(g.generators) == 1 and not g.generators[0].ifs
                and isinstance(g.generators[0].target, ast.Name) and isinstance(g.generators[0].iter, (ast.Tuple, ast.List))):
            return None
        tgt = g.generators[0].target.id

        class Sub(ast.NodeTransformer):
            def __init__(self, repl):
                self.repl = repl

            def visit_Name(self, n):
                if n.id == tgt and isinstance(n.ctx, ast.Load):
                    return copy.deepcopy(self.repl)
                return n

        vals = [Sub(e).visit(copy.deepcopy(g.elt)) for e in g.generators[0].iter.elts]
        if not vals:
            return [Out("normal", st, const(f.id == "all"))]
        expr = vals[0] if len(vals) == 1 else ast.BoolOp(op=ast.Or() if f.id == "any" else ast.And(), values=vals)
        ast.copy_location(expr, node)
        ast.fix_missing_locations(expr)
        res, raises = it.truth_fork(st, expr)
        return list(raises) + [Out("normal", s, const(b)) for s, b in res]

    def _canon_args(self, it, node, recv, q, pos, kw):
        return it.canon_args(node, recv, pos, kw)

    def compare(self, it, st, node, a, b):
        """x[:n] == "lit" (len n), x[-n:] == "lit", x[0] == "c", x[-1] == "c" are the questions startswith / endswith ask:
        they are decided by, and decide, the same fact."""
        if len(node.ops) != 1 or not isinstance(node.ops[0], (ast.Eq, ast.NotEq)):
            return None
        for x, y in ((a, b), (b, a)):
            if not (x.sym and y.kind == "const" and isinstance(y.val, (str, bytes)) and y.val):
                continue
            o, args = destruct(x.sym)
            n = len(y.val)
            F = None
            if o == "slice" and len(args) == 4 and args[3] == "":
                if args[1] in ("", "0") and args[2] == str(n):
                    F = T("startswith", args[0], K(y.val))
                elif args[1] == str(-n) and args[2] == "":
                    F = T("endswith", args[0], K(y.val))
            elif o == "idx" and n == 1 and len(args) == 2 and destruct(args[0])[0] not in (
                    "split", "rsplit", "splitlines", "partition", "rpartition", "groups", "list", "tuple", "listcomp", "gen", "setcomp", "items", "keys", "values", "sorted", "findall"):
                # (indexing a string; the element of a list of strings is a different question)
                if args[1] == "0":
                    F = T("startswith", args[0], K(y.val))
                elif args[1] == "-1":
                    F = T("endswith", args[0], K(y.val))
            if F is None:
                continue
            known = st.facts.get(F, (None, None))[0]
            outs = []
            for val in ((True, False) if known is None else (known,)):
                s = st.copy()
                s.facts[F] = (val, False)
                outs.append((s, val if isinstance(node.ops[0], ast.Eq) else not val))
            return outs
        return None

    def _quantifier(self, it, st, node, g, which):
        """any(E(x) for x in I) over a symbolic iterable: two outcomes - True with a witness `some(I)` on which E holds, False with
        E failing on the generic element `each(I)` (the same element a `for x in I` loop uses);  all() dually."""
        gen = g.generators[0]
        vals, raises = it.eval(st, gen.iter)
        outs = list(raises)
        conds = list(gen.ifs)
        body = g.elt
        if conds:
            guard = conds[0] if len(conds) == 1 else ast.BoolOp(op=ast.And(), values=conds)
            body = ast.BoolOp(op=ast.And(), values=[guard, body]) if which == "any" else ast.BoolOp(op=ast.Or(), values=[ast.UnaryOp(op=ast.Not(), operand=guard), body])
            ast.copy_location(body, node)
            ast.fix_missing_locations(body)
        for s0, itv in vals:
            if (itv.kind == "tuple" and not itv.val) or (itv.kind == "const" and isinstance(itv.val, (tuple, str, bytes, frozenset)) and not itv.val):
                outs.append(Out("normal", s0, const(which == "all")))
                continue
            I = term_of(itv)
            for elem, keep in ((T("some", I), which == "any"), (T("each", I), which != "any")):
                s = s0.copy()
                if isinstance(gen.target, (ast.Tuple, ast.List)) and not any(isinstance(t, ast.Starred) for t in gen.target.elts):
                    n = len(gen.target.elts)
                    base = "some" if elem.startswith("some(") else "each"
                    it.assign(s, gen.target, AV("tuple", tuple(tv(T(f"{base}{i}", I)) for i in range(n)), truth=True, none=False))
                else:
                    it.assign(s, gen.target, tv(elem))
                res, r2 = it.truth_fork(s, body)
                outs += r2
                for s2, b in res:
                    if b == keep:
                        # any: witness satisfies -> True / generic fails -> False ; all: generic satisfies -> True / witness fails -> False
                        s2.log(node, f"{which}(...) over {I[:40]} -> {keep if which == 'any' else not (not keep)}")
                        outs.append(Out("normal", s2, const(keep if which == "any" else keep)))
        return outs

    @staticmethod
    def _itemgetter_keys(it, st, f):
        """constant keys of an `operator.itemgetter(k1, ..)` callee: spelt in place, or bound once to a module-level name"""
        def keys_of(c):
            if isinstance(c, ast.Call) and not c.keywords and c.args and all(isinstance(a_, ast.Constant) for a_ in c.args):
                q = it.m.resolve_name(it.module, c.func) or ""
                if q.endswith("operator.itemgetter"):
                    return [a_.value for a_ in c.args]
            return None
        if isinstance(f, ast.Call):
            return keys_of(f)
        if isinstance(f, ast.Name) and it.var(f.id) not in st.env:
            stmts = it.m.assigns.get(it.module, {}).get(f.id) or []
            if len(stmts) == 1 and isinstance(stmts[0], (ast.Assign, ast.AnnAssign)) and stmts[0].value is not None:
                return keys_of(stmts[0].value)
        return None

    def call(self, it, st, node, recv, pos, kw):
        f0 = node.func
        if isinstance(f0, ast.Name) and it.self_cls and not getattr(node, "_sa_alias_call", False):
            v0 = st.env.get(it.var(f0.id))
            parts0 = v0.sym.split(".") if (v0 is not None and v0.kind == "unk" and v0.sym) else []
            if len(parts0) >= 2 and parts0[0] == "self" and all(p_.isidentifier() for p_ in parts0):
                # m = self.method ... m(x)  is  self.method(x) (likewise r = self._fp._safe_read ... r(n)): evaluated as that call
                # (once: the synthesized node is marked)
                fn0 = ast.Name(id="self", ctx=ast.Load())
                for p_ in parts0[1:]:
                    fn0 = ast.Attribute(value=fn0, attr=p_, ctx=ast.Load())
                fake = ast.Call(func=fn0, args=node.args, keywords=node.keywords)
                ast.copy_location(fake, node)
                ast.fix_missing_locations(fake)
                fake._sa_alias_call = True
                vals_, raises_ = it.eval_call(st, fake)
                return [Out("normal", s_, a_) for s_, a_ in vals_] + list(raises_)
        ig = self._itemgetter_keys(it, st, f0)
        if ig is not None and len(pos) == 1 and not kw:
            # operator.itemgetter("a", "b")(d) is (d["a"], d["b"]); itemgetter("a")(d) is d["a"]
            items = [tv(T("idx", term_of(pos[0]), K(k_))) for k_ in ig]
            return [Out("normal", st, items[0] if len(items) == 1 else AV("tuple", tuple(items), truth=True, none=False))]
        try:
            pos, kw = self._canon_args(it, node, recv, it.resolve_callee(node, recv), pos, kw)  # hooks of every term rule see canonical arguments
        except Exception:
            pass
        r = self.call_hook(it, st, node, recv, pos, kw)
        if r is not None:
            return r
        r = self._list_builder(it, st, node, recv, pos)
        if r is not None:
            return r
        r = self._desugar_any_all(it, st, node)
        if r is not None:
            return r
        f = node.func
        if isinstance(f, ast.Name) and f.id == "bool" and len(pos) == 1 and not kw and (it.m.resolve_local(it.module, "bool") or "builtins.").startswith("builtins."):
            # bool(x): decided by (and deciding) the truthiness of x
            a = st.view(pos[0])
            if a.truth is not None:
                return [Out("normal", st, const(a.truth))]
            outs = []
            for t in (True, False):
                s = it.refine(st.copy(), node.args[0], a, lambda v, t=t: v.with_truth(t))
                outs.append(Out("normal", s, const(t)))
            return outs
        kws = [f"{k}={term_of(v)}" for k, v in sorted(kw.items())]
        if isinstance(f, ast.Attribute) and recv is not None and f.attr in PURE_STR_METHODS and recv.kind != "self":
            if f.attr == "join" and len(pos) == 1:
                return [Out("normal", st, tv(T("join", term_of(recv), term_of(pos[0])), none=False))]
            t = T(f.attr, term_of(recv), *[term_of(p) for p in pos], *kws)
            return [Out("normal", st, tv(t, none=False if f.attr not in ("get",) else None))]
        if isinstance(f, ast.Name) and f.id in PURE_BUILTINS and (it.m.resolve_local(it.module, f.id) or "builtins.").startswith("builtins."):
            if f.id == "len" and pos and pos[0].kind == "const":
                try:
                    return [Out("normal", st, const(len(pos[0].val)))]
                except Exception:
                    pass
            EMPTY = ("set()", "list()", "tuple()", "dict()", "frozenset()", "bytearray()")
            if f.id == "len" and pos and pos[0].sym in EMPTY:
                return [Out("normal", st, const(0))]
            if f.id in ("set", "list", "tuple", "dict", "frozenset", "bytearray") and not pos and not kws:
                return [Out("normal", st, AV("unk", sym=T(f.id), none=False, truth=False, typ=f"builtins.{f.id}"))]  # a fresh empty container
            typ = f"builtins.{f.id}" if f.id in ("str", "bytes", "int", "float", "list", "tuple", "set", "frozenset", "dict", "bytearray") else None
            return [Out("normal", st, AV("unk", sym=T(f.id, *[term_of(p) for p in pos], *kws), none=None if f.id in ("getattr", "next") else False, typ=typ))]
        if isinstance(f, ast.Attribute) and isinstance(f.value, ast.Name) and f.value.id == "typing" and f.attr == "cast" and len(pos) == 2:
            return [Out("normal", st, pos[1])]
        return None


def _fold_binop(op, a, b):
    if isinstance(op, ast.Add):
        return a + b
    if isinstance(op, ast.Sub):
        return a - b
    if isinstance(op, ast.Mult):
        return a * b
    if isinstance(op, ast.Mod):
        return a % b
    if isinstance(op, ast.FloorDiv):
        return a // b
    raise ValueError


# ---------------------------------------------------------------------------- normal forms
def _is_strconst(t):
    op, a = destruct(t)
    return op == "const" and isinstance(a, (str, bytes))


def norm(t: str) -> str:
    """Equational normal form of a term:
       string building   a + b, f"..{x}..", sep.join([x1, .., xn])  ->  cat(x1, .., xn) with adjacent literals merged
       min / max          flattened, arguments sorted
       iter(x)            x
    Applied bottom-up; anything else is rebuilt structurally."""
    op, args = destruct(t)
    if op is None or op == "const":
        return t
    nargs = [norm(a) for a in args]
    if op in ("min", "max") and len(nargs) == 1 and destruct(nargs[0])[0] in ("list", "tuple") and destruct(nargs[0])[1] \
            and not any(destruct(x_)[0] in ("star", "rep") for x_ in destruct(nargs[0])[1]):
        nargs = list(destruct(nargs[0])[1])  # min([a, b]) is min(a, b)
        if len(nargs) == 1:
            return nargs[0]
    if op in ("min", "max"):
        flat = []
        for a in nargs:
            o2, a2 = destruct(a)
            flat += list(a2) if o2 == op else [a]
        return T(op, *sorted(flat))
    if op == "iter" and len(nargs) == 1:
        return nargs[0]
    # a fresh copy of a sequence X:  X[:]  ==  [*X]  ==  [X[0], *X[1:]]
    if op == "slice" and len(nargs) == 4 and nargs[1:] == ["", "", ""]:
        return T("copy", nargs[0])
    if op == "list" and len(nargs) == 1 and destruct(nargs[0])[0] == "star":
        return T("copy", destruct(nargs[0])[1][0])
    if op == "list" and len(nargs) == 2 and destruct(nargs[1])[0] == "star":
        h, tl = destruct(nargs[0]), destruct(destruct(nargs[1])[1][0])
        if h[0] == "idx" and len(h[1]) == 2 and h[1][1] == "0" and tl[0] == "slice" and len(tl[1]) == 4 and tl[1][0] == h[1][0] and tl[1][1:] == ("1", "", ""):
            return T("copy", h[1][0])
    if op == "add" and len(nargs) == 2:
        # [X[0]] + X[1:]  is the same fresh copy
        l_, tl = destruct(nargs[0]), destruct(nargs[1])
        if l_[0] == "list" and len(l_[1]) == 1 and tl[0] == "slice" and len(tl[1]) == 4 and tl[1][1:] == ("1", "", ""):
            h = destruct(l_[1][0])
            if h[0] == "idx" and len(h[1]) == 2 and h[1][1] == "0" and h[1][0] == tl[1][0]:
                return T("copy", h[1][0])
    parts = None
    if op == "format" and nargs and _is_strconst(nargs[0]) and isinstance(destruct(nargs[0])[1], str) and not any("=" in a.split("(", 1)[0] and not a.startswith(("'", '"')) for a in nargs[1:]):
        # "..{}..{}..".format(a, b)  ==  f"..{a}..{b}.."   (automatic or explicit positional fields without spec/conversion)
        import string as _string
        try:
            fields = list(_string.Formatter().parse(destruct(nargs[0])[1]))
        except ValueError:
            fields = None
        if fields is not None:
            ps, auto, ok = [], 0, True
            for lit, name, spec, conv in fields:
                if lit:
                    ps.append(term_of(const(lit)))
                if name is None:
                    continue
                if spec or conv:
                    ok = False
                    break
                if name == "":
                    i = auto
                    auto += 1
                elif name.isdigit():
                    i = int(name)
                else:
                    ok = False
                    break
                if i + 1 >= len(nargs):
                    ok = False
                    break
                ps.append(nargs[1 + i])
            if ok:
                parts = ps
    if parts is not None:
        pass
    elif op in ("fstr", "cat"):
        parts = list(nargs)
    elif op == "add" and len(nargs) == 2:
        l_op, _ = destruct(nargs[0])
        r_op, _ = destruct(nargs[1])
        if _is_strconst(nargs[0]) or _is_strconst(nargs[1]) or l_op == "cat" or r_op == "cat":
            parts = list(nargs)
    elif op == "join" and len(nargs) == 2 and _is_strconst(nargs[0]):
        lop, largs = destruct(nargs[1])
        if lop in ("list", "tuple") and not any(destruct(x)[0] in ("star", "rep") for x in largs):
            parts = []
            for i, x in enumerate(largs):
                if i:
                    parts.append(nargs[0])
                parts.append(x)
    if parts is not None:
        flat = []
        for p in parts:
            o2, a2 = destruct(p)
            flat += list(a2) if o2 == "cat" else [p]
        merged = []
        for p in flat:
            if merged and _is_strconst(p) and _is_strconst(merged[-1]):
                a, b = destruct(merged[-1])[1], destruct(p)[1]
                if type(a) is type(b):
                    merged[-1] = term_of(const(a + b))
                    continue
            if _is_strconst(p) and not destruct(p)[1]:
                continue  # empty literal
            merged.append(p)
        if len(merged) == 1:
            return merged[0]
        # bytes built from encoded text and ASCII literals:  x.encode(E) + b"lit"  ==  (x + "lit").encode(E)   (E ASCII-compatible)
        encs = set()
        all_bytes = True
        for p in merged:
            o2, a2 = destruct(p)
            if o2 == "encode" and len(a2) == 2 and destruct(a2[1])[0] == "const" and str(destruct(a2[1])[1]).lower().replace("_", "-") in ("utf-8", "utf8", "latin-1", "latin1", "iso-8859-1", "ascii"):
                encs.add(a2[1])
            elif o2 == "const" and isinstance(a2, bytes) and a2.isascii():
                pass
            else:
                all_bytes = False
        if all_bytes and len(encs) == 1:
            inner = []
            for p in merged:
                o2, a2 = destruct(p)
                inner.append(a2[0] if o2 == "encode" else term_of(const(a2.decode("ascii"))))
            return T("encode", norm(T("cat", *inner)), next(iter(encs)))
        return T("cat", *merged)
    return T(op, *nargs)


def subterms(t):
    """All subterms of t (pre-order), as strings."""
    yield t
    op, args = destruct(t)
    if op is not None and op != "const":
        for a in args:
            yield from subterms(a)


def occurs_only_under(t, atom, wrappers):
    """Does every occurrence of `atom` in t sit inside a subterm whose operator is in `wrappers`?"""
    if t == atom:
        return False
    op, args = destruct(t)
    if op is None or op == "const":
        return atom not in t if op is None else True
    if op in wrappers:
        return True
    return all(occurs_only_under(a, atom, wrappers) for a in args)


def subst(t: str, old: str, new: str) -> str:
    """t with every occurrence of the sub-term `old` replaced by `new` (rebuilt through T, so the result is a registered term)."""
    if t == old:
        return new
    op, args = destruct(t)
    if op in (None, "const"):
        return t
    out = []
    for a in args:
        head = a.split("(", 1)[0]
        if "=" in head and not a.startswith(("'", '"')):
            k, v = a.split("=", 1)
            out.append(f"{k}={subst(v, old, new)}")
        else:
            out.append(subst(a, old, new))
    return T(op, *out)
