"""Thorough tier: the quick rules plus the both-ways self-test of the checker for this property."""
from __future__ import annotations

from . import selftest


def extend(ctx, mod):
    if hasattr(mod, "run_thorough"):
        mod.run_thorough(ctx)
    cat = [m for m in selftest.load_catalog() if m["prop"] == ctx.prop]
    res = selftest.run_many(cat, jobs=16)
    ctx.extra["selftest"] = {
        "variants": len(res),
        "as_expected": sum(1 for r in res if r["status"] == "ok"),
        "inapplicable": [r["name"] for r in res if r["status"] == "inapplicable"],
        "missed": [r["name"] for r in res if r["status"] == "MISS"],
        "note": "each breaking variant must make this check exit 1 naming the rule; each benign variant must stay silent; "
                "run on scratch copies of the current tree, so results are only meaningful when the tree itself is clean",
    }
    for r in res:
        if r["status"] == "MISS":
            print(f"SELFTEST-MISS {ctx.prop} {r['name']} (exit {r.get('exit')}, rules {r.get('rules')})")
