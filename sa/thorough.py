"""Thorough tier: the quick rules, plus (a) layout invariance - the same rules on a copy of the tree passed through
ast.unparse (every line number, comment and layout changes, behaviour does not) must give identical obligations -
and (b) the both-ways self-test of the checker for this property (breaking variants fire, benign variants stay silent)."""
from __future__ import annotations

import ast
import json
import os
import shutil
import subprocess
import sys
import tempfile

from . import selftest

VERIF = os.path.dirname(os.path.dirname(os.path.abspath(__file__)))


def unparse_invariance(ctx, mine):
    tmp = tempfile.mkdtemp(prefix="sa_unparse_", dir=os.environ.get("VERIF_SCRATCH", "/tmp"))
    try:
        dst = os.path.join(tmp, "src")
        shutil.copytree(os.path.join(ctx.repo, "src"), dst, ignore=shutil.ignore_patterns("__pycache__"))
        n = 0
        for dp, dn, fn in os.walk(dst):
            for f in fn:
                if f.endswith(".py"):
                    p = os.path.join(dp, f)
                    src = open(p).read()
                    try:
                        out = ast.unparse(ast.parse(src))
                    except SyntaxError:
                        continue
                    open(p, "w").write(out + "\n")
                    n += 1
        keys_file = os.path.join(tmp, "keys.json")
        env = dict(os.environ, VERIF_REPO=tmp, VERIF_EVIDENCE_DIR=os.path.join(tmp, "ev"), VERIF_DUMP_KEYS=keys_file, PYTHONPATH=VERIF)
        env.pop("VERIF_TIER", None)
        r = subprocess.run([sys.executable, "-m", "sa.check", ctx.prop, "--tier", "quick"], cwd=VERIF, env=env, capture_output=True, text=True, timeout=900)
        theirs = set(json.load(open(keys_file))) if os.path.exists(keys_file) else None
        res = {"files_rewritten": n, "exit_on_rewritten_tree": r.returncode, "obligations_here": len(mine),
               "obligations_there": len(theirs) if theirs is not None else None,
               "identical": theirs is not None and theirs == mine}
        if theirs is not None and theirs != mine:
            res["only_here"] = sorted(mine - theirs)[:10]
            res["only_there"] = sorted(theirs - mine)[:10]
        return res
    finally:
        shutil.rmtree(tmp, ignore_errors=True)


REFACTORS = (("rename_locals.py", "every function-local variable renamed"),
             ("insert_noops.py", "a no-op statement inserted at the start of every function"),
             ("swap_ifs.py", "every if/else rewritten as `if not C: <else> else: <then>`"))


def refactor_invariance(ctx):
    """The same rules on behaviour-preserving rewrites of the whole tree must give the same verdict."""
    import re
    out = {}
    for tool, what in REFACTORS:
        tmp = tempfile.mkdtemp(prefix="sa_refactor_", dir=os.environ.get("VERIF_SCRATCH", "/tmp"))
        try:
            env = dict(os.environ, VERIF_REPO=ctx.repo)
            r0 = subprocess.run([sys.executable, os.path.join(VERIF, "tools", tool), tmp], env=env, capture_output=True, text=True, timeout=300)
            if r0.returncode != 0:
                out[tool] = {"what": what, "error": (r0.stderr or r0.stdout)[-300:]}
                continue
            env = dict(os.environ, VERIF_REPO=tmp, VERIF_EVIDENCE_DIR=os.path.join(tmp, "ev"), PYTHONPATH=VERIF)
            env.pop("VERIF_TIER", None)
            r = subprocess.run([sys.executable, "-m", "sa.check", ctx.prop, "--tier", "quick"], cwd=VERIF, env=env, capture_output=True, text=True, timeout=900)
            out[tool] = {"what": what, "tool_says": r0.stdout.strip()[-70:], "exit_on_rewritten_tree": r.returncode,
                         "rules_failing_there": sorted(set(re.findall(r"rule (\\S+) fails", r.stdout))),
                         "known_findings_there": sorted(set(re.findall(r"KNOWN-FINDING: property=\\S+ (\\S+)", r.stdout)))}
            if r.returncode != 0:
                print(f"REFACTOR-INVARIANCE-DIFF {ctx.prop} {tool}: exit {r.returncode}")
        finally:
            shutil.rmtree(tmp, ignore_errors=True)
    return out


def extend(ctx, mod):
    mine = {f"{o.key}|{'holds' if o.ok else 'FAILS'}" for o in ctx.obs}
    if hasattr(mod, "run_thorough"):
        mod.run_thorough(ctx)
    inv = unparse_invariance(ctx, mine)
    ctx.extra["layout_invariance"] = inv
    if not inv.get("identical"):
        print(f"LAYOUT-INVARIANCE-DIFF {ctx.prop}: {json.dumps(inv)[:600]}")
    ctx.extra["refactor_invariance"] = refactor_invariance(ctx)
    cat = [m for m in selftest.load_catalog() if m["prop"] == ctx.prop]
    res = selftest.run_many(cat, jobs=16)
    ctx.extra["selftest"] = {
        "variants": len(res),
        "as_expected": sum(1 for r in res if r["status"] == "ok"),
        "breaking_variants_detected": [f"{r['name']} -> {r.get('rules')}" for r in res if r["status"] == "ok" and not r.get("benign")],
        "benign_variants_silent": [r["name"] for r in res if r["status"] == "ok" and r.get("benign")],
        "inapplicable": [r["name"] for r in res if r["status"] == "inapplicable"],
        "missed": [r["name"] for r in res if r["status"] == "MISS"],
        "note": "each breaking variant must make this check exit 1 naming the rule; each benign variant must stay silent; "
                "run on scratch copies of the current tree, so results are only meaningful when the tree itself is clean",
    }
    for r in res:
        if r["status"] == "MISS":
            print(f"SELFTEST-MISS {ctx.prop} {r['name']} (exit {r.get('exit')}, rules {r.get('rules')})")
