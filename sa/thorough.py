"""Thorough tier: the quick rules, plus (a) layout invariance - the same rules on a copy of the tree passed through
ast.unparse (every line number, comment and layout changes, behaviour does not) must give identical obligations -
and (b) the both-ways self-test of the checker for this property (breaking variants fire, benign variants stay silent)."""
from __future__ import annotations

import ast
import json
import os
import shutil
import subprocess
import sys
import tempfile

from . import selftest

VERIF = os.path.dirname(os.path.dirname(os.path.abspath(__file__)))


def unparse_invariance(ctx, mine):
    tmp = tempfile.mkdtemp(prefix="sa_unparse_", dir=os.environ.get("VERIF_SCRATCH", "/tmp"))
    try:
        dst = os.path.join(tmp, "src")
        shutil.copytree(os.path.join(ctx.repo, "src"), dst, ignore=shutil.ignore_patterns("__pycache__"))
        n = 0
        for dp, dn, fn in os.walk(dst):
            for f in fn:
                if f.endswith(".py"):
                    p = os.path.join(dp, f)
                    src = open(p).read()
                    try:
                        out = ast.unparse(ast.parse(src))
                    except SyntaxError:
                        continue
                    open(p, "w").write(out + "\n")
                    n += 1
        keys_file = os.path.join(tmp, "keys.json")
        env = dict(os.environ, VERIF_REPO=tmp, VERIF_EVIDENCE_DIR=os.path.join(tmp, "ev"), VERIF_DUMP_KEYS=keys_file, PYTHONPATH=VERIF)
        env.pop("VERIF_TIER", None)
        r = subprocess.run([sys.executable, "-m", "sa.check", ctx.prop, "--tier", "quick"], cwd=VERIF, env=env, capture_output=True, text=True, timeout=900)
        theirs = set(json.load(open(keys_file))) if os.path.exists(keys_file) else None
        res = {"files_rewritten": n, "exit_on_rewritten_tree": r.returncode, "obligations_here": len(mine),
               "obligations_there": len(theirs) if theirs is not None else None,
               "identical": theirs is not None and theirs == mine}
        if theirs is not None and theirs != mine:
            res["only_here"] = sorted(mine - theirs)[:10]
            res["only_there"] = sorted(theirs - mine)[:10]
        return res
    finally:
        shutil.rmtree(tmp, ignore_errors=True)


def rename_invariance(ctx):
    """The same rules on a copy of the tree in which every function-local variable was renamed must give the same verdict."""
    tmp = tempfile.mkdtemp(prefix="sa_rename_", dir=os.environ.get("VERIF_SCRATCH", "/tmp"))
    try:
        env = dict(os.environ, VERIF_REPO=ctx.repo)
        r0 = subprocess.run([sys.executable, os.path.join(VERIF, "tools", "rename_locals.py"), tmp], env=env, capture_output=True, text=True, timeout=300)
        if r0.returncode != 0:
            return {"error": (r0.stderr or r0.stdout)[-300:]}
        env = dict(os.environ, VERIF_REPO=tmp, VERIF_EVIDENCE_DIR=os.path.join(tmp, "ev"), PYTHONPATH=VERIF)
        env.pop("VERIF_TIER", None)
        r = subprocess.run([sys.executable, "-m", "sa.check", ctx.prop, "--tier", "quick"], cwd=VERIF, env=env, capture_output=True, text=True, timeout=900)
        import re
        rules_there = sorted(set(re.findall(r"rule (\S+) fails", r.stdout)))
        known_there = sorted(set(re.findall(r"KNOWN-FINDING: property=\S+ (\S+)", r.stdout)))
        return {"renamed": r0.stdout.strip()[-60:], "exit_on_renamed_tree": r.returncode, "unexpected_rules_failing_there": rules_there, "known_findings_there": known_there}
    finally:
        shutil.rmtree(tmp, ignore_errors=True)


def extend(ctx, mod):
    mine = {f"{o.key}|{'holds' if o.ok else 'FAILS'}" for o in ctx.obs}
    if hasattr(mod, "run_thorough"):
        mod.run_thorough(ctx)
    inv = unparse_invariance(ctx, mine)
    ctx.extra["layout_invariance"] = inv
    if not inv.get("identical"):
        print(f"LAYOUT-INVARIANCE-DIFF {ctx.prop}: {json.dumps(inv)[:600]}")
    rn = rename_invariance(ctx)
    ctx.extra["local_rename_invariance"] = rn
    cat = [m for m in selftest.load_catalog() if m["prop"] == ctx.prop]
    res = selftest.run_many(cat, jobs=16)
    ctx.extra["selftest"] = {
        "variants": len(res),
        "as_expected": sum(1 for r in res if r["status"] == "ok"),
        "breaking_variants_detected": [f"{r['name']} -> {r.get('rules')}" for r in res if r["status"] == "ok" and not r.get("benign")],
        "benign_variants_silent": [r["name"] for r in res if r["status"] == "ok" and r.get("benign")],
        "inapplicable": [r["name"] for r in res if r["status"] == "inapplicable"],
        "missed": [r["name"] for r in res if r["status"] == "MISS"],
        "note": "each breaking variant must make this check exit 1 naming the rule; each benign variant must stay silent; "
                "run on scratch copies of the current tree, so results are only meaningful when the tree itself is clean",
    }
    for r in res:
        if r["status"] == "MISS":
            print(f"SELFTEST-MISS {ctx.prop} {r['name']} (exit {r.get('exit')}, rules {r.get('rules')})")
