"""Catalogue of checker self-test variants (see sa/selftest.py).

Each entry: name, prop, file (relative to src/urllib3), old, new [, rule] [, benign].
`old` must occur in the file; the first occurrence is replaced.  A variant whose
`old` text is gone (the repository moved on) is reported as inapplicable, not as a miss.
"""

MUTANTS = []


def M(prop, name, file, old, new, rule=None, benign=False, regex=False):
    MUTANTS.append(dict(prop=prop, name=name, file=file, old=old, new=new, rule=rule, benign=benign, regex=regex))


# --------------------------------------------------------------------------- C18
M("C18", "normaliser-drops-server-hostname", "poolmanager.py",
  "    socket_opts = context.get(\"socket_options\")\n",
  "    context.pop(\"server_hostname\", None)\n    socket_opts = context.get(\"socket_options\")\n", rule="C18-R1")
M("C18", "merge-without-copy", "poolmanager.py",
  "base_pool_kwargs = self.connection_pool_kw.copy()", "base_pool_kwargs = self.connection_pool_kw", rule="C18-R3")
M("C18", "pool-from-defaults-key-from-merged", "poolmanager.py",
  "pool = self._new_pool(scheme, host, port, request_context=request_context)",
  "pool = self._new_pool(scheme, host, port)", rule="C18-R2")
M("C18", "headers-frozen-by-name-only", "poolmanager.py",
  "context[key] = frozenset(context[key].items())", "context[key] = frozenset(context[key])", rule="C18-R4")
M("C18", "proxy-config-not-keyed", "poolmanager.py",
  "        connection_pool_kw[\"_proxy_config\"] = self.proxy_config\n", "", rule="C18-R7")
M("C18", "cache-insert-under-other-key", "poolmanager.py",
  "self.pools[pool_key] = pool", "self.pools[pool_key[:3]] = pool", rule="C18-R6")
M("C18", "new-pool-adds-from-defaults", "poolmanager.py",
  "        for key in (\"scheme\", \"host\", \"port\"):\n            request_context.pop(key, None)\n",
  "        for key in (\"scheme\", \"host\", \"port\"):\n            request_context.pop(key, None)\n        request_context.update(self.connection_pool_kw)\n", rule="C18-R2")
M("C18", "benign-rename-context-local", "poolmanager.py",
  "request_context = self._merge_pool_kwargs(pool_kwargs)\n        request_context[\"scheme\"] = scheme or \"http\"",
  "request_context = self._merge_pool_kwargs(pool_kwargs)\n        request_context[\"scheme\"] = (scheme or \"http\")", benign=True)

# --------------------------------------------------------------------------- C01
M("C01", "no-close-in-finally", "connectionpool.py",
  "                if conn:\n                    conn.close()\n                    conn = None\n                release_this_conn = True",
  "                if conn:\n                    conn = None\n                release_this_conn = True", rule="C01-R1")
M("C01", "no-release-after-unclean-exit", "connectionpool.py",
  "                    conn = None\n                release_this_conn = True\n", "                    conn = None\n", rule="C01-R1a")
M("C01", "put-conn-no-close-on-full", "connectionpool.py",
  "                # Connection never got put back into the pool, close it.\n                if conn:\n                    conn.close()\n\n                if self.block:",
  "                if self.block:", rule="C01-R2")
M("C01", "emptypool-handler-keeps-release", "connectionpool.py",
  "            clean_exit = True\n            release_this_conn = False\n            raise", "            clean_exit = True\n            raise", rule="C01-R1b")
M("C01", "clean-exit-set-before-request", "connectionpool.py",
  "            response_conn = conn if not release_conn else None\n",
  "            response_conn = conn if not release_conn else None\n            clean_exit = True\n", rule="C01-R1")
M("C01", "timeout-resolved-inside-try-again", "connectionpool.py",
  "        timeout_obj = self._get_timeout(timeout)\n\n        try:\n            # Request a connection from the queue.\n",
  "        try:\n            # Request a connection from the queue.\n            timeout_obj = self._get_timeout(timeout)\n", rule="C01-R1b")
M("C01", "get-conn-creates-when-blocking", "connectionpool.py",
  "            if self.block:\n                raise EmptyPoolError(", "            if self.block and timeout:\n                raise EmptyPoolError(", rule="C01-R3")
M("C01", "double-release-when-handed", "connectionpool.py",
  "            response_conn = conn if not release_conn else None\n", "            response_conn = conn\n", rule="C01-R1")
MUTANTS.append(dict(prop="C01", name="benign-rename-clean-exit", benign=True, rule=None, regex=True,
                    edits=[("connectionpool.py", r"(?s)\A(.*)\Z", lambda mo: mo.group(1).replace("clean_exit", "ok_flag"))]))
MUTANTS.append(dict(prop="C01", name="benign-extract-finally-helper", benign=True, rule=None, regex=False, edits=[
    ("connectionpool.py", "                self._put_conn(conn)\n\n        if not conn:", "                self._give_back(conn)\n\n        if not conn:"),
    ("connectionpool.py", "    def _validate_conn(self, conn: BaseHTTPConnection) -> None:\n", "    def _give_back(self, c):  # type: ignore[no-untyped-def]\n        self._put_conn(c)\n\n    def _validate_conn(self, conn: BaseHTTPConnection) -> None:\n"),
]))
M("C01", "release-conn-keeps-backref", "response.py",
  "        self._pool._put_conn(self._connection)\n        self._connection = None\n", "        self._pool._put_conn(self._connection)\n", rule="C01-R4")
M("C01", "chunk-read-outside-catcher", "response.py",
  "        self._init_decoder()\n        # FIXME: Rewrite this method and make it a class with a better structured logic.\n",
  "        self._init_decoder()\n        if self._fp is not None and self.chunked and self.chunk_left:\n            self._fp._safe_read(0)  # type: ignore[union-attr]\n", rule="C01-R5")
M("C01", "catcher-does-not-close-conn", "response.py",
  "                if self._connection:\n                    self._connection.close()\n\n            # If we hold the original response but it's closed now",
  "                pass\n\n            # If we hold the original response but it's closed now", rule="C01-R6")
M("C01", "catcher-lets-oserror-through", "response.py",
  "            except (HTTPException, OSError) as e:\n                raise ProtocolError(f\"Connection broken: {e!r}\", e) from e\n",
  "            except HTTPException as e:\n                raise ProtocolError(f\"Connection broken: {e!r}\", e) from e\n", rule="C01-R6")
M("C01", "catcher-releases-unconditionally-first", "response.py",
  "        finally:\n            # If we didn't terminate cleanly, we need to throw away our\n            # connection.\n            if not clean_exit:",
  "        finally:\n            if self._original_response and not clean_exit:\n                self.release_conn()\n            if not clean_exit:", rule="C01-R6")
M("C01", "urlopen-drops-httpexception", "connectionpool.py",
  "            TimeoutError,\n            HTTPException,\n            OSError,\n            ProtocolError,", "            TimeoutError,\n            OSError,\n            ProtocolError,", rule="C01-R8")
M("C01", "urlopen-passes-raw-error-to-retry", "connectionpool.py",
  "            elif isinstance(new_e, (OSError, HTTPException)):\n                new_e = ProtocolError(\"Connection aborted.\", new_e)\n",
  "            elif isinstance(new_e, HTTPException):\n                new_e = ProtocolError(\"Connection aborted.\", new_e)\n", rule="C01-R8")
M("C01", "probe-swallows-baseexception", "connection.py",
  "                    host=probe_http2_host, port=probe_http2_port, supports_http2=None\n                )\n            raise\n",
  "                    host=probe_http2_host, port=probe_http2_port, supports_http2=None\n                )\n                return\n            raise\n", rule="C01-R9")
M("C01", "drain-skips-close", "connectionpool.py",
  "            conn = pool.get(block=False)\n            if conn:\n                conn.close()\n", "            conn = pool.get(block=False)\n            if conn and conn.sock:\n                conn.close()\n", rule="C01-R10")
M("C01", "conn-close-keeps-sock-on-error", "connection.py",
  "        try:\n            super().close()\n        finally:\n            # Reset all stateful properties so connection\n            # can be re-used without leaking prior configs.\n            self.sock = None\n",
  "        try:\n            super().close()\n        finally:\n            pass\n        if True:\n            self.sock = None\n", rule="C01-R11")

# --------------------------------------------------------------------------- C02
M("C02", "cache-last-connection-on-pool", "connectionpool.py",
  "            conn = self._get_conn(timeout=pool_timeout)\n\n            conn.timeout",
  "            conn = self._get_conn(timeout=pool_timeout)\n            self._last_conn = conn\n\n            conn.timeout", rule="C02-R")
M("C02", "qsize-on-live-field-again", "connectionpool.py",
  "                    pool.qsize(),", "                    self.pool.qsize(),", rule="C02-R3")
M("C02", "get-conn-loses-attributeerror-arm", "connectionpool.py",
  "        except AttributeError:  # self.pool is None\n            raise ClosedPoolError(self, \"Pool is closed.\") from None  # Defensive:\n\n        except queue.Empty:",
  "        except queue.Empty:", rule="C02-R3")
M("C02", "close-drains-live-field", "connectionpool.py",
  "        old_pool, self.pool = self.pool, None\n\n        # Close all the HTTPConnections in the pool.\n        _close_pool_connections(old_pool)",
  "        old_pool = self.pool\n\n        # Close all the HTTPConnections in the pool.\n        _close_pool_connections(old_pool)\n        self.pool = None", rule="C02-R4")
M("C02", "finalizer-captures-self", "connectionpool.py",
  "        weakref.finalize(self, _close_pool_connections, pool)", "        weakref.finalize(self, self.close)", rule="C02-R5")
M("C02", "probe-lock-released-only-on-success", "connection.py",
  "            if target_supports_http2 is None:\n                http2_probe.set_and_release(\n                    host=probe_http2_host, port=probe_http2_port, supports_http2=None\n                )\n            raise",
  "            raise", rule="C02-R6")
M("C02", "put-blocks-when-full", "connectionpool.py",
  "                pool.put(conn, block=False)", "                pool.put(conn, block=self.block)", rule="C02-R7")
M("C02", "take-always-blocks", "connectionpool.py",
  "            conn = self.pool.get(block=self.block, timeout=timeout)", "            conn = self.pool.get(block=True, timeout=timeout)", rule="C02-R7")
M("C02", "fifo-list-instead-of-queue", "connectionpool.py",
  "    QueueCls = queue.LifoQueue", "    QueueCls = collections.deque", rule="C02-R7")
M("C02", "benign-queuecls-fifo", "connectionpool.py",
  "    QueueCls = queue.LifoQueue", "    QueueCls = queue.Queue", benign=True)
M("C02", "new-pool-under-foreign-lock-sleeps", "poolmanager.py",
  "            pool = self._new_pool(scheme, host, port, request_context=request_context)\n            self.pools[pool_key] = pool",
  "            pool = self._new_pool(scheme, host, port, request_context=request_context)\n            pool.urlopen(\"HEAD\", \"/\")\n            self.pools[pool_key] = pool", rule="C02-R6")

# --------------------------------------------------------------------------- C03
M("C03", "no-dropped-check-on-checkout", "connectionpool.py",
  "        if conn and is_connection_dropped(conn):\n            log.debug(\"Resetting dropped connection: %s\", self.host)\n            conn.close()\n",
  "", rule="C03-R1")
M("C03", "dropped-logged-not-closed", "connectionpool.py",
  "            log.debug(\"Resetting dropped connection: %s\", self.host)\n            conn.close()\n",
  "            log.debug(\"Resetting dropped connection: %s\", self.host)\n", rule="C03-R1")
M("C03", "is-connected-negation-lost", "connection.py",
  "        return not wait_for_read(self.sock, timeout=0.0)", "        return wait_for_read(self.sock, timeout=0.0)", rule="C03-R2")
M("C03", "probe-blocks", "connection.py",
  "        return not wait_for_read(self.sock, timeout=0.0)", "        return not wait_for_read(self.sock, timeout=None)", rule="C03-R2")
M("C03", "dropped-ignores-is-connected", "util/connection.py",
  "    return not conn.is_connected", "    return conn.is_closed", rule="C03-R2")
M("C03", "catcher-releases-without-closed-guard", "response.py",
  "            if self._original_response and self._original_response.isclosed():\n                self.release_conn()",
  "            if self._original_response:\n                self.release_conn()", rule="C01-R6")  # since the F15 fix release_conn closes an unread connection itself: the early hand-back now breaks the clean-read protocol (C01-R6, shared as C03-R7), not the hand-back rule
M("C03", "clean-exit-true-in-discard-handler", "connectionpool.py",
  "            # replaced during the next _get_conn() call.\n            clean_exit = False\n",
  "            # replaced during the next _get_conn() call.\n            clean_exit = isinstance(e, ProtocolError)\n", rule="C0")
M("C03", "head-length-not-zero", "response.py",
  "        if status in (204, 304) or 100 <= status < 200 or request_method == \"HEAD\":",
  "        if status in (204, 304) or 100 <= status < 200:", rule="C03-R6")
M("C03", "second-feeder", "response.py",
  "        self._pool._put_conn(self._connection)\n        self._connection = None",
  "        self._pool.pool.put(self._connection, block=False)  # type: ignore[union-attr]\n        self._connection = None", rule="C03-R4")

# --------------------------------------------------------------------------- C17
M("C17", "len-outside-lock", "_collections.py",
  "        with self.lock:\n            return len(self._container)", "        return len(self._container)", rule="C17-R1")
M("C17", "dispose-inside-lock", "_collections.py",
  "        with self.lock:\n            value = self._container.pop(key)\n\n        if self.dispose_func:\n            self.dispose_func(value)",
  "        with self.lock:\n            value = self._container.pop(key)\n            if self.dispose_func:\n                self.dispose_func(value)", rule="C17-R2")
M("C17", "dispose-on-getitem", "_collections.py",
  "            item = self._container.pop(key)\n            self._container[key] = item\n            return item",
  "            item = self._container.pop(key)\n            self._container[key] = item\n        if self.dispose_func and item is None:\n            self.dispose_func(item)\n        return item", rule="C17-R5")
M("C17", "evict-most-recent", "_collections.py",
  "evicted_item = self._container.popitem(last=False)", "evicted_item = self._container.popitem(last=True)", rule="C17-R4")
M("C17", "replaced-value-not-disposed", "_collections.py",
  "                evicted_item = key, self._container.pop(key)\n                self._container[key] = value",
  "                self._container.pop(key)\n                self._container[key] = value", rule="C17-R3")
M("C17", "bound-off-by-one", "_collections.py",
  "                if len(self._container) > self._maxsize:", "                if len(self._container) > self._maxsize + 1:", rule="C17-R4")
M("C17", "getitem-no-refresh", "_collections.py",
  "            item = self._container.pop(key)\n            self._container[key] = item\n            return item",
  "            item = self._container[key]\n            return item", rule="C17-R5")
M("C17", "clear-disposes-only-first", "_collections.py",
  "            for value in values:\n                self.dispose_func(value)",
  "            for value in values:\n                self.dispose_func(value)\n                break", rule="C17-R3")
M("C17", "pool-created-outside-lock", "poolmanager.py",
  "        with self.pools.lock:\n            # If the scheme, host, or port doesn't match existing open\n            # connections, open a new ConnectionPool.\n            pool = self.pools.get(pool_key)\n            if pool:\n                return pool\n",
  "        pool = self.pools.get(pool_key)\n        if pool:\n            return pool\n        with self.pools.lock:\n", rule="C17-R6")
M("C17", "manager-closes-evicted-pools", "poolmanager.py",
  "        self.pools = RecentlyUsedContainer(num_pools)", "        self.pools = RecentlyUsedContainer(num_pools, dispose_func=lambda p: p.close())", rule="C17-R7")
M("C17", "capacity-ignores-num-pools", "poolmanager.py",
  "        self.pools = RecentlyUsedContainer(num_pools)", "        self.pools = RecentlyUsedContainer()", rule="C17-R8")
M("C17", "plain-lock", "_collections.py", "        self.lock = RLock()", "        self.lock = Lock()", rule="C17-R1")
M("C17", "benign-move-to-end", "_collections.py",
  "            item = self._container.pop(key)\n            self._container[key] = item\n            return item",
  "            item = self._container.pop(key)\n            self._container[key] = item\n            result = item\n            return result", benign=True)

# --------------------------------------------------------------------------- C16
M("C16", "contains-without-lower", "_collections.py",
  "            return key.lower() in self._container", "            return key in self._container", rule="C16-R1")
M("C16", "getlist-without-lower", "_collections.py",
  "            vals = self._container[key.lower()]\n        except KeyError:", "            vals = self._container[key]\n        except KeyError:", rule="C16-R1")
M("C16", "copy-shares-lists", "_collections.py",
  "            val = other.getlist(key)\n            self._container[key.lower()] = [key, *val]",
  "            self._container[key.lower()] = other._container[key.lower()]", rule="C16-R2")
M("C16", "getlist-returns-stored-list", "_collections.py",
  "            return vals[1:]", "            return vals", rule="C16-R2")
M("C16", "or-returns-self", "_collections.py",
  "        result = self.copy()\n        result.extend(maybe_constructable)\n        return result",
  "        result = self\n        result.extend(maybe_constructable)\n        return result", rule="C16-R3")
M("C16", "ior-returns-copy", "_collections.py",
  "        self.extend(maybe_constructable)\n        return self", "        self.extend(maybe_constructable)\n        return self.copy()", rule="C16-R3")
M("C16", "extend-overwrites-mapping", "_collections.py",
  "            for key, val in other.items():\n                self.add(key, val)", "            for key, val in other.items():\n                self[key] = val", rule="C16-R4")
M("C16", "setitem-keeps-old-values", "_collections.py",
  "        self._container[key.lower()] = [key, val]", "        self._container[key.lower()] = [key, val] + self.getlist(key)", rule="C16-R5")  # (the replacing-assignment clause moved from the storage discipline to the effect table of __setitem__)

# --------------------------------------------------------------------------- C20
M("C20", "escape-only-quote", "fields.py",
  'value = value.translate({10: "%0A", 13: "%0D", 34: "%22"})', 'value = value.translate({34: "%22"})', rule="C20-R2")
M("C20", "disposition-by-fstring", "fields.py",
  "                self._render_parts(\n                    ((\"name\", self._name), (\"filename\", self._filename))\n                ),",
  "                f'name=\"{self._name}\"',", rule="C20-R1")
M("C20", "default-formatter-rfc2231", "fields.py",
  "            self.header_formatter = format_multipart_header_param", "            self.header_formatter = format_header_param_rfc2231", rule="C20-R1")
M("C20", "no-closing-delimiter", "filepost.py",
  "    body.write(f\"--{boundary}--\\r\\n\".encode(\"latin-1\"))\n", "", rule="C20-R3")
M("C20", "fresh-boundary-for-content-type", "filepost.py",
  "    content_type = f\"multipart/form-data; boundary={boundary}\"", "    content_type = f\"multipart/form-data; boundary={choose_boundary()}\"", rule="C20-R4")
M("C20", "crlf-after-data-only-for-str", "filepost.py",
  "            body.write(data)\n\n        body.write(b\"\\r\\n\")", "            body.write(data)\n            continue\n\n        body.write(b\"\\r\\n\")", rule="C20-R3")
M("C20", "bytes-through-text-writer", "filepost.py",
  "        if isinstance(data, str):\n            writer(body).write(data)\n        else:\n            body.write(data)",
  "        writer(body).write(data)", rule="C20-R3")
M("C20", "header-block-without-blank-line", "fields.py",
  "        lines.append(\"\\r\\n\")\n        return \"\\r\\n\".join(lines)", "        return \"\\r\\n\".join(lines) + \"\\r\\n\"", rule="C20-R3")
M("C20", "escaped-value-not-quoted", "fields.py",
  "    return f'{name}=\"{value}\"'\n\n\ndef format_header_param_html5", "    return f'{name}={value}'\n\n\ndef format_header_param_html5", rule="C20-R2")
M("C20", "boundary-regenerated-per-field", "filepost.py",
  "    for field in iter_field_objects(fields):\n        body.write(f\"--{boundary}\\r\\n\".encode(\"latin-1\"))",
  "    for field in iter_field_objects(fields):\n        boundary = boundary or choose_boundary()\n        body.write(f\"--{boundary}\\r\\n\".encode(\"latin-1\"))", rule="C20-R4")
M("C20", "content-type-from-constant", "_request_methods.py",
  "            extra_kw[\"headers\"].setdefault(\"Content-Type\", content_type)", "            extra_kw[\"headers\"].setdefault(\"Content-Type\", \"multipart/form-data\")", rule="C20-R5")

# --------------------------------------------------------------------------- C04
M("C04", "increment-mutates-total", "util/retry.py",
  "        total = self.total\n        if total is not None:\n            total -= 1\n",
  "        if self.total is not None and self.total is not False:\n            self.total -= 1\n        total = self.total\n", rule="C04-R1")
M("C04", "resend-with-pool-default-policy", "connectionpool.py",
  "            return self.urlopen(\n                method,\n                url,\n                body,\n                headers,\n                retries,\n                redirect,\n                assert_same_host,",
  "            return self.urlopen(\n                method,\n                url,\n                body,\n                headers,\n                self.retries,\n                redirect,\n                assert_same_host,", rule="C04-R2")
M("C04", "status-retry-resends-before-increment", "connectionpool.py",
  "            try:\n                retries = retries.increment(method, url, response=response, _pool=self)\n            except MaxRetryError:\n                if retries.raise_on_status:",
  "            try:\n                retries.increment(method, url, response=response, _pool=self)\n            except MaxRetryError:\n                if retries.raise_on_status:", rule="C04-R2")
M("C04", "new-drops-backoff-jitter", "util/retry.py",
  "            backoff_jitter=self.backoff_jitter,\n", "", rule="C04-R3")
M("C04", "new-drops-allowed-methods", "util/retry.py",
  "            allowed_methods=self.allowed_methods,\n            status_forcelist", "            status_forcelist", rule="C04-R3")
M("C04", "backoff-unclamped", "util/retry.py",
  "        return float(max(0, min(self.backoff_max, backoff_value)))", "        return float(max(0, backoff_value))", rule="C04-R4")
M("C04", "retry-after-not-clamped", "util/retry.py",
  "        seconds = max(seconds, 0)\n\n        return seconds", "        return seconds", rule="C04-R4")
M("C04", "retry-after-on-500", "util/retry.py",
  "RETRY_AFTER_STATUS_CODES = frozenset([413, 429, 503])", "RETRY_AFTER_STATUS_CODES = frozenset([413, 429, 500, 503])", rule="C04-R5")
M("C04", "is-retry-ignores-method-for-forcelist", "util/retry.py",
  "        if not self._is_method_retryable(method):\n            return False\n\n        if self.status_forcelist and status_code in self.status_forcelist:\n            return True\n",
  "        if self.status_forcelist and status_code in self.status_forcelist:\n            return True\n\n        if not self._is_method_retryable(method):\n            return False\n", rule="C04-R5")
M("C04", "is-retry-ignores-respect-flag", "util/retry.py",
  "            self.total\n            and self.respect_retry_after_header\n            and has_retry_after", "            self.total\n            and has_retry_after", rule="C04-R5")
M("C04", "retries-false-wraps-error", "util/retry.py",
  "        if self.total is False and error:\n            # Disabled, indicate to re-raise the error.\n            raise reraise(type(error), error, _stacktrace)\n",
  "        if self.total is False and error and self._is_connection_error(error):\n            # Disabled, indicate to re-raise the error.\n            raise reraise(type(error), error, _stacktrace)\n", rule="C04-R6")
M("C04", "read-error-ignores-protocolerror", "util/retry.py",
  "        return isinstance(err, (ReadTimeoutError, ProtocolError))", "        return isinstance(err, ReadTimeoutError)", rule="C04-R7")
M("C04", "other-branch-spends-nothing", "util/retry.py",
  "        total = self.total\n        if total is not None:\n            total -= 1\n", "        total = self.total\n        if total is not None and not error:\n            total -= 1\n", rule="C04-R9")
M("C04", "read-branch-does-not-spend-read", "util/retry.py",
  "            elif read is not None:\n                read -= 1", "            elif read is not None:\n                pass", rule="C04-R9")
M("C04", "method-gate-dropped", "util/retry.py",
  "            if read is False or method is None or not self._is_method_retryable(method):", "            if read is False or method is None:", rule="C04-R10")
M("C04", "post-in-default-allowed-methods", "util/retry.py",
  "        [\"HEAD\", \"GET\", \"PUT\", \"DELETE\", \"OPTIONS\", \"TRACE\"]", "        [\"HEAD\", \"GET\", \"PUT\", \"POST\", \"DELETE\", \"OPTIONS\", \"TRACE\"]", rule="C04-R11")
M("C04", "retry-after-always-respected", "util/retry.py",
  "        if self.respect_retry_after_header and response:", "        if response:", rule="C04-R12")
M("C04", "increment-returns-self-when-not-exhausted", "util/retry.py",
  "        log.debug(\"Incremented Retry for (url='%s'): %r\", url, new_retry)\n\n        return new_retry",
  "        log.debug(\"Incremented Retry for (url='%s'): %r\", url, new_retry)\n\n        return self if self.total is None else new_retry", rule="C04-R9")

# --------------------------------------------------------------------------- C05
M("C05", "manager-ignores-configured-retries-again", "poolmanager.py",
  "retries = Retry.from_int(retries, redirect=redirect, default=conn.retries)", "retries = Retry.from_int(retries, redirect=redirect)", rule="C05-R1")
M("C05", "pool-ignores-pool-default", "connectionpool.py",
  "retries = Retry.from_int(retries, redirect=redirect, default=self.retries)", "retries = Retry.from_int(retries, redirect=redirect)", rule="C05-R1")
M("C05", "303-guard-widened-to-302", "connectionpool.py",
  "            if response.status == 303:\n                # Change the method according to RFC 9110, Section 15.4.4.\n                method = \"GET\"\n                # And lose the body not to transfer anything sensitive.\n                body = None",
  "            if response.status in (302, 303):\n                # Change the method according to RFC 9110, Section 15.4.4.\n                method = \"GET\"\n                # And lose the body not to transfer anything sensitive.\n                body = None", rule="C05-R4")
M("C05", "manager-303-keeps-body", "poolmanager.py",
  "            kw[\"body\"] = None\n            kw[\"headers\"] = HTTPHeaderDict", "            kw[\"headers\"] = HTTPHeaderDict", rule="C05-R4")
M("C05", "manager-303-keeps-content-headers", "poolmanager.py",
  "            kw[\"headers\"] = HTTPHeaderDict(kw[\"headers\"])._prepare_for_method_change()\n", "", rule="C05-R4")
M("C05", "manager-redirect-before-increment", "poolmanager.py",
  "        kw[\"retries\"] = retries\n        kw[\"redirect\"] = redirect", "        kw[\"redirect\"] = redirect", rule="C0")
M("C05", "manager-no-urljoin", "poolmanager.py",
  "        redirect_location = urljoin(url, redirect_location)\n", "", rule="C05-R6")
M("C05", "manager-swallows-maxretry", "poolmanager.py",
  "            if retries.raise_on_redirect:\n                response.drain_conn()\n                raise\n            return response",
  "            return response", rule="C05-R5")
M("C05", "pool-raises-without-drain", "connectionpool.py",
  "                if retries.raise_on_redirect:\n                    response.drain_conn()\n                    raise", "                if retries.raise_on_redirect:\n                    raise", rule="C05-R5")
M("C05", "manager-lets-pool-follow", "poolmanager.py",
  "        kw[\"assert_same_host\"] = False\n        kw[\"redirect\"] = False\n", "        kw[\"assert_same_host\"] = False\n        kw[\"redirect\"] = redirect\n", rule="C05-R3")
M("C05", "redirect-flag-ignored-in-pool", "connectionpool.py",
  "        redirect_location = redirect and response.get_redirect_location()\n        if redirect_location:\n            if response.status == 303:",
  "        redirect_location = response.get_redirect_location()\n        if redirect_location:\n            if response.status == 303:", rule="C05-R3")
M("C05", "retry-false-keeps-redirect-budget", "util/retry.py",
  "        if redirect is False or total is False:\n            redirect = 0\n            raise_on_redirect = False",
  "        if redirect is False:\n            redirect = 0\n            raise_on_redirect = False", rule="C05-R3")
M("C05", "305-treated-as-redirect", "response.py",
  "    REDIRECT_STATUSES = [301, 302, 303, 307, 308]", "    REDIRECT_STATUSES = [301, 302, 303, 305, 307, 308]", rule="C05-R7")
M("C05", "method-change-keeps-content-type", "_collections.py",
  "            \"Content-Type\",\n            \"Content-Length\",", "            \"Content-Length\",", rule="C05-R4")

# --------------------------------------------------------------------------- C06
M("C06", "strip-compares-without-lower", "poolmanager.py",
  "                if header.lower() in retries.remove_headers_on_redirect:", "                if header in retries.remove_headers_on_redirect:", rule="C06-R2")
M("C06", "resend-with-unstripped-mapping", "poolmanager.py",
  "                    new_headers.pop(header, None)\n            kw[\"headers\"] = new_headers\n", "                    new_headers.pop(header, None)\n", rule="C06-R")
M("C06", "same-host-ignores-scheme", "connectionpool.py",
  "        return (scheme, host, port) == (self.scheme, self.host, self.port)", "        return (host, port) == (self.host, self.port)", rule="C06-R4")
M("C06", "same-host-tested-on-original-url", "poolmanager.py",
  "        if retries.remove_headers_on_redirect and not conn.is_same_host(\n            redirect_location\n        ):",
  "        if retries.remove_headers_on_redirect and not conn.is_same_host(\n            url\n        ):", rule="C06-R1")
M("C06", "cookie-not-in-defaults", "util/retry.py",
  "        [\"Cookie\", \"Authorization\", \"Proxy-Authorization\"]", "        [\"Authorization\", \"Proxy-Authorization\"]", rule="C06-R3")
M("C06", "policy-set-not-lowercased", "util/retry.py",
  "        self.remove_headers_on_redirect = frozenset(\n            h.lower() for h in remove_headers_on_redirect\n        )",
  "        self.remove_headers_on_redirect = frozenset(remove_headers_on_redirect)", rule="C06-R2")
M("C06", "strip-only-on-scheme-downgrade", "poolmanager.py",
  "        if retries.remove_headers_on_redirect and not conn.is_same_host(\n            redirect_location\n        ):",
  "        if retries.remove_headers_on_redirect and u.scheme == \"https\" and not conn.is_same_host(\n            redirect_location\n        ):", rule="C06-R1")
M("C06", "host-check-after-get-conn", "connectionpool.py",
  "        if assert_same_host and not self.is_same_host(url):\n            raise HostChangedError(self, url, retries)\n",
  "        if assert_same_host and redirect and not self.is_same_host(url):\n            raise HostChangedError(self, url, retries)\n", rule="C06-R6")
M("C06", "pool-redirect-drops-assert-same-host", "connectionpool.py",
  "                retries=retries,\n                redirect=redirect,\n                assert_same_host=assert_same_host,\n                timeout=timeout,\n                pool_timeout=pool_timeout,\n                release_conn=release_conn,\n                chunked=chunked,\n                body_pos=body_pos,\n                preload_content=preload_content,\n                decode_content=decode_content,\n                **response_kw,\n            )\n\n        # Check if we should retry the HTTP response.",
  "                retries=retries,\n                redirect=redirect,\n                assert_same_host=False,\n                timeout=timeout,\n                pool_timeout=pool_timeout,\n                release_conn=release_conn,\n                chunked=chunked,\n                body_pos=body_pos,\n                preload_content=preload_content,\n                decode_content=decode_content,\n                **response_kw,\n            )\n\n        # Check if we should retry the HTTP response.", rule="C06-R6")
M("C06", "strip-pops-first-match-only", "poolmanager.py",
  "                    new_headers.pop(header, None)\n", "                    new_headers.pop(header, None)\n                    break\n", rule="C06-R1")
M("C06", "same-host-port-default-missing", "connectionpool.py",
  "            host = _normalize_host(host, scheme=scheme)\n", "            host = host.lower()\n", rule="C06-R4")

# --------------------------------------------------------------------------- C07
M("C07", "is-verified-literal-true", "connection.py",
  "            is_verified=context.verify_mode == ssl.CERT_REQUIRED\n            or bool(assert_fingerprint),", "            is_verified=True,", rule="C07-R3")
M("C07", "is-verified-widened-to-not-none", "connection.py",
  "            is_verified=context.verify_mode == ssl.CERT_REQUIRED\n", "            is_verified=context.verify_mode != ssl.CERT_NONE\n", rule="C07-R3")
M("C07", "skip-match-hostname-when-pyopenssl", "connection.py",
  "            context.verify_mode != ssl.CERT_NONE\n            and not context.check_hostname\n            and assert_hostname is not False\n        ):",
  "            context.verify_mode != ssl.CERT_NONE\n            and not context.check_hostname\n            and not ssl_.IS_PYOPENSSL\n            and assert_hostname is not False\n        ):", rule="C07-R3")
M("C07", "check-hostname-always-off", "connection.py",
  "        or ssl_.IS_PYOPENSSL\n        or not ssl_.HAS_NEVER_CHECK_COMMON_NAME\n    ):\n        context.check_hostname = False",
  "        or ssl_.IS_PYOPENSSL\n        or not ssl_.HAS_NEVER_CHECK_COMMON_NAME\n        or True\n    ):\n        context.check_hostname = False\n    default_ssl_context = default_ssl_context and bool(context.check_hostname or True)", rule=None, benign=True)
M("C07", "match-condition-flipped-check-hostname", "connection.py",
  "            and not context.check_hostname\n            and assert_hostname is not False", "            and context.check_hostname\n            and assert_hostname is not False", rule="C07-R3")
M("C07", "return-before-fingerprint-check", "connection.py",
  "    try:\n        if assert_fingerprint:\n            _assert_fingerprint(\n                ssl_sock.getpeercert(binary_form=True), assert_fingerprint\n            )\n        elif (",
  "    try:\n        if assert_fingerprint and cert_reqs is not None:\n            _assert_fingerprint(\n                ssl_sock.getpeercert(binary_form=True), assert_fingerprint\n            )\n        elif (", rule="C07-R3")
M("C07", "verify-callback-accepts-all", "contrib/pyopenssl.py",
  "    return err_no == 0", "    return True", rule="C07-R7")
M("C07", "default-cert-none", "util/ssl_.py",
  "    if candidate is None:\n        return CERT_REQUIRED\n\n    if isinstance(candidate, str):\n        res = getattr(ssl, candidate, None)\n        if res is None:\n            res = getattr(ssl, \"CERT_\" + candidate)",
  "    if candidate is None:\n        return ssl.CERT_NONE\n\n    if isinstance(candidate, str):\n        res = getattr(ssl, candidate, None)\n        if res is None:\n            res = getattr(ssl, \"CERT_\" + candidate)", rule="C07-R3")
M("C07", "failed-check-leaves-socket-open", "connection.py",
  "    except BaseException:\n        ssl_sock.close()\n        raise\n\n\ndef _match_hostname", "    except OSError:\n        ssl_sock.close()\n        raise\n\n\ndef _match_hostname", rule="C07-R4")
M("C07", "request-before-validate", "connectionpool.py",
  "            # Trigger any extra validation we need to do.\n            try:\n                self._validate_conn(conn)",
  "            # Trigger any extra validation we need to do.\n            try:\n                if conn.is_closed:\n                    self._validate_conn(conn)", rule="C07-R1")
M("C07", "validate-skips-connect", "connectionpool.py",
  "        # Force connect early to allow us to validate the connection.\n        if conn.is_closed:\n            conn.connect()\n", "", rule="C07-R1")
M("C07", "sni-uses-self-host-through-tunnel", "connection.py",
  "                server_hostname = typing.cast(str, self._tunnel_host)\n", "", rule="C07-R8")
M("C07", "sock-not-replaced-by-wrapped", "connection.py",
  "            self.sock = sock_and_verified.socket\n\n        # If an error occurs during connection/handshake", "            sock = sock_and_verified.socket\n\n        # If an error occurs during connection/handshake", rule="C07-R2")
M("C07", "forwarding-proxy-reports-verified", "connection.py",
  "        if self.proxy_is_forwarding:\n            self.is_verified = False\n        else:\n            self.is_verified = sock_and_verified.is_verified",
  "        self.is_verified = sock_and_verified.is_verified", rule="C07-R2")
M("C07", "warning-only-when-no-proxy", "connectionpool.py",
  "        if not conn.is_verified and not conn.proxy_is_verified:", "        if not conn.is_verified and conn.proxy_is_verified is None:", rule="C07-R6")
M("C07", "mismatch-logged-not-raised", "connection.py",
  "        e._peer_cert = cert  # type: ignore[attr-defined]\n        raise\n", "        e._peer_cert = cert  # type: ignore[attr-defined]\n", rule="C07-R9")
M("C07", "assert-hostname-ignored-uses-sni", "connection.py",
  "                assert_hostname or server_hostname,  # type: ignore[arg-type]", "                server_hostname,  # type: ignore[arg-type]", rule="C07-R3")

# --------------------------------------------------------------------------- C08
M("C08", "end-anchor-dollar", "util/ssl_match_hostname.py",
  'pat = re.compile(r"\\A" + r"\\.".join(pats) + r"\\Z", re.IGNORECASE)', 'pat = re.compile(r"\\A" + r"\\.".join(pats) + r"$", re.IGNORECASE)', rule="C08-R1")
M("C08", "whole-label-wildcard-may-be-empty", "util/ssl_match_hostname.py",
  '        pats.append("[^.]+")', '        pats.append("[^.]*")', rule="C08-R1")
M("C08", "wildcard-spans-dots", "util/ssl_match_hostname.py",
  '        pats.append("[^.]+")', '        pats.append(".+")', rule="C08-R1")
M("C08", "wildcard-in-any-label", "util/ssl_match_hostname.py",
  "    for frag in remainder:\n        pats.append(re.escape(frag))", "    for frag in remainder:\n        pats.append(re.escape(frag).replace(r\"\\*\", \"[^.]*\"))", rule="C08-R1")
M("C08", "max-wildcards-two", "util/ssl_match_hostname.py",
  "    dn: typing.Any, hostname: str, max_wildcards: int = 1", "    dn: typing.Any, hostname: str, max_wildcards: int = 2", rule="C08-R2")
M("C08", "case-sensitive-match", "util/ssl_match_hostname.py",
  'pat = re.compile(r"\\A" + r"\\.".join(pats) + r"\\Z", re.IGNORECASE)', 'pat = re.compile(r"\\A" + r"\\.".join(pats) + r"\\Z")', rule="C08-R1")
M("C08", "idn-check-only-on-cert-side", "util/ssl_match_hostname.py",
  '    elif leftmost.startswith("xn--") or hostname.startswith("xn--"):', '    elif leftmost.startswith("xn--"):', rule="C08-R3")
M("C08", "cn-consulted-with-sans-present", "util/ssl_match_hostname.py",
  "    if hostname_checks_common_name and host_ip is None and not dnsnames:", "    if hostname_checks_common_name and host_ip is None:", rule="C08-R4")
M("C08", "dns-san-against-ip-host", "util/ssl_match_hostname.py",
  "            if host_ip is None and _dnsname_match(value, hostname):", "            if _dnsname_match(value, hostname):", rule="C08-R4")
M("C08", "ip-compared-as-text", "util/ssl_match_hostname.py",
  "    return bool(ip.packed == host_ip.packed)", "    return bool(str(ip) == str(host_ip) or ipname.rstrip() == str(host_ip))", rule="C08-R5")
M("C08", "accept-16-char-pins", "util/ssl_.py",
  'for length, algorithm in ((32, "md5"), (40, "sha1"), (64, "sha256"))', 'for length, algorithm in ((16, "md5"), (32, "md5"), (40, "sha1"), (64, "sha256"))', rule="C08-R7")
M("C08", "fingerprint-case-sensitive", "util/ssl_.py",
  '    fingerprint = fingerprint.replace(":", "").lower()', '    fingerprint = fingerprint.replace(":", "")', rule="C08-R7")
M("C08", "fingerprint-mismatch-only-warns", "util/ssl_.py",
  "    if not hmac.compare_digest(cert_digest, fingerprint_bytes):\n        raise SSLError(", "    if not hmac.compare_digest(cert_digest, fingerprint_bytes) and cert_digest is None:\n        raise SSLError(", rule="C08-R7")
M("C08", "brackets-stripped-for-dns-names", "connection.py",
  "    stripped_hostname = asserted_hostname.strip(\"[]\")\n    if is_ipaddress(stripped_hostname):\n        asserted_hostname = stripped_hostname",
  "    stripped_hostname = asserted_hostname.strip(\"[]\")\n    asserted_hostname = stripped_hostname", rule="C08-R6")
M("C08", "match-success-without-match", "util/ssl_match_hostname.py",
  "            if host_ip is not None and _ipaddress_match(value, host_ip):\n                return", "            if host_ip is not None or _ipaddress_match(value, host_ip):\n                return", rule="C08-R4")

# --------------------------------------------------------------------------- C09
M("C09", "forward-https-without-opt-in", "util/proxy.py",
  "        proxy_url.scheme == \"https\"\n        and proxy_config\n        and proxy_config.use_forwarding_for_https\n", "        proxy_url.scheme == \"https\"\n        and proxy_config\n", rule="C09-R1")
M("C09", "http-destination-tunnelled-check-dropped", "util/proxy.py",
  "    if destination_scheme == \"http\":\n        return False\n", "    if destination_scheme == \"http\" and proxy_url.scheme == \"http\":\n        return False\n", rule="C09-R1")
M("C09", "proxy-headers-merged-unconditionally", "connectionpool.py",
  "        if not http_tunnel_required:\n            headers = headers.copy()  # type: ignore[attr-defined]\n            headers.update(self.proxy_headers)  # type: ignore[union-attr]",
  "        if self.proxy is not None:\n            headers = headers.copy()  # type: ignore[attr-defined]\n            headers.update(self.proxy_headers)  # type: ignore[union-attr]", rule="C09-R3")
M("C09", "no-retunnel-for-closed-pooled-conn", "connectionpool.py",
  "            if self.proxy is not None and http_tunnel_required and conn.is_closed:", "            if self.proxy is not None and http_tunnel_required and not conn.has_connected_to_proxy and conn.sock is None and self.num_requests == 0:", rule="C09-R4")
M("C09", "tunnel-decision-on-pool-scheme", "connectionpool.py",
  "            self.proxy, self.proxy_config, destination_scheme\n        )\n\n        # Merge the proxy headers.", "            self.proxy, self.proxy_config, self.scheme\n        )\n\n        # Merge the proxy headers.", rule="C09-R2")
M("C09", "origin-sni-self-host-through-tunnel", "connection.py",
  "                if self._tunnel_scheme == \"https\":\n                    # _connect_tls_proxy will verify and assign proxy_is_verified\n                    self.sock = sock = self._connect_tls_proxy(self.host, sock)\n                    tls_in_tls = True",
  "                if self._tunnel_scheme == \"https\":\n                    # _connect_tls_proxy will verify and assign proxy_is_verified\n                    self.sock = sock = self._connect_tls_proxy(self.host, sock)", rule="C09-R5")
M("C09", "tunnel-before-proxy-tls", "connection.py",
  "                self._tunnel()\n\n                # The proxy accepted the tunnel: from here on failures are the origin's.\n                self._has_connected_to_proxy = True\n                # Override the host",
  "                # The proxy accepted the tunnel: from here on failures are the origin's.\n                self._has_connected_to_proxy = True\n                # Override the host", rule="C09-R5")
M("C09", "connect-host-brackets-stripped", "connectionpool.py",
  "        self._tunnel_host = normalize_host(host, scheme=self.scheme).lower()", "        self._tunnel_host = _normalize_host(host, scheme=self.scheme).lower()", rule="C09-R7")
M("C09", "proxy-tls-uses-origin-assertions", "connection.py",
  "            assert_hostname=proxy_config.assert_hostname,\n            assert_fingerprint=proxy_config.assert_fingerprint,", "            assert_hostname=self.assert_hostname,\n            assert_fingerprint=self.assert_fingerprint,", rule="C09-R5")
M("C09", "https-pool-dials-origin-despite-proxy", "connectionpool.py",
  "        if self.proxy is not None and self.proxy.host is not None:\n            actual_host = self.proxy.host\n            actual_port = self.proxy.port\n", "", rule="C09-R6")
M("C09", "manager-always-origin-form", "poolmanager.py",
  "        if self._proxy_requires_url_absolute_form(u):\n            response = conn.urlopen(method, url, **kw)\n        else:\n            response = conn.urlopen(method, u.request_uri, **kw)",
  "        response = conn.urlopen(method, u.request_uri, **kw)", rule="C09-R8")
M("C09", "close-keeps-tunnel-host", "connection.py",
  "            self._tunnel_host = None\n            self._tunnel_port = None", "            self._tunnel_port = None", rule="C09-R4")
M("C09", "proxy-headers-into-request-headers-in-manager", "poolmanager.py",
  "            headers = kw.get(\"headers\", self.headers)\n            kw[\"headers\"] = self._set_proxy_headers(url, headers)",
  "            headers = kw.get(\"headers\", self.headers)\n            kw[\"headers\"] = self._set_proxy_headers(url, {**headers, **self.proxy_headers})", rule="C09-R3")

# --------------------------------------------------------------------------- C10
M("C10", "method-check-removed", "connection.py",
  "        match = _CONTAINS_CONTROL_CHAR_RE.search(method)\n        if match:\n            raise ValueError(\n                f\"Method cannot contain non-token characters {method!r} (found at least {match.group()!r})\"\n            )\n",
  "", rule="C10-R1")
M("C10", "method-pattern-allows-space", "connection.py",
  "_CONTAINS_CONTROL_CHAR_RE = re.compile(r\"[^-!#$%&'*+.^_`|~0-9a-zA-Z]\")", "_CONTAINS_CONTROL_CHAR_RE = re.compile(r\"[^-!#$%&'*+.^_`|~0-9a-zA-Z ]\")", rule="C10-R1")
M("C10", "method-checked-with-match-not-search", "connection.py",
  "        match = _CONTAINS_CONTROL_CHAR_RE.search(method)", "        match = _CONTAINS_CONTROL_CHAR_RE.match(method)", rule="C10-R1")
M("C10", "raw-url-to-make-request", "connectionpool.py",
  "        if url.startswith(\"/\"):\n            url = to_str(_encode_target(url))\n        else:",
  "        if not url.startswith(\"/\"):", rule="C10-R2")
M("C10", "space-in-path-chars", "util/url.py",
  "_PATH_CHARS = _USERINFO_CHARS | {\"@\", \"/\"}", "_PATH_CHARS = _USERINFO_CHARS | {\"@\", \"/\", \" \"}", rule="C10-R2")
M("C10", "encoder-keeps-non-ascii", "util/url.py",
  "            byte_ord < 128 and byte.decode() in allowed_chars", "            byte_ord >= 128 or byte.decode() in allowed_chars", rule="C10-R2")
M("C10", "header-bypasses-putheader", "connection.py",
  "        for header, value in headers.items():\n            self.putheader(header, value)\n        self.endheaders()",
  "        for header, value in headers.items():\n            self._output(f\"{header}: {value}\".encode(\"latin-1\"))  # type: ignore[attr-defined]\n        self.endheaders()", rule="C10-R3")
M("C10", "putheader-skips-validation-for-bytes", "connection.py",
  "        if not any(isinstance(v, str) and v == SKIP_HEADER for v in values):\n            super().putheader(header, *values)",
  "        if not any(isinstance(v, str) and v == SKIP_HEADER for v in values):\n            super().putheader(header, *[v for v in values if v])", rule="C10-R3")
M("C10", "host-skipped-case-sensitively", "connection.py",
  "        header_keys = frozenset(to_str(k.lower()) for k in headers)", "        header_keys = frozenset(to_str(k) for k in headers)", rule="C10-R5")
M("C10", "h2-name-accepts-uppercase", "http2/connection.py",
  "0-9a-z]+\\Z\")", "0-9a-zA-Z]+\\Z\")", rule="C10-R6")
M("C10", "h2-name-dollar-anchor-again", "http2/connection.py",
  "0-9a-z]+\\Z\")", "0-9a-z]+$\")", rule="C10-R6")
M("C10", "h2-value-check-after-append", "http2/connection.py",
  "            if _is_illegal_header_value(value):\n                raise ValueError(f\"Illegal header value {str(value)}\")\n            self._headers.append((header, value))",
  "            self._headers.append((header, value))\n            if _is_illegal_header_value(value):\n                raise ValueError(f\"Illegal header value {str(value)}\")", rule="C10-R6")
M("C10", "h2-value-allows-nul", "http2/connection.py",
  "rb\"[\\0\\x00\\x0a\\x0d\\r\\n]|^[ \\r\\n\\t]|[ \\r\\n\\t]$\"", "rb\"[\\x0a\\x0d\\r\\n]|^[ \\r\\n\\t]|[ \\r\\n\\t]$\"", rule="C10-R6")
M("C10", "raw-sendall-of-body", "connection.py",
  "                    self.send(b\"%x\\r\\n%b\\r\\n\" % (len(chunk), chunk))\n                else:\n                    self.send(chunk)",
  "                    self.send(b\"%x\\r\\n%b\\r\\n\" % (len(chunk), chunk))\n                else:\n                    self.sock.sendall(chunk)", rule="C10-R4")
M("C10", "skip-header-accepted-for-any-header", "connection.py",
  "        elif to_str(header.lower()) not in SKIPPABLE_HEADERS:", "        elif to_str(header.lower()) not in SKIPPABLE_HEADERS and header.lower().startswith(\"x-\"):", rule="C10-R5")

# --------------------------------------------------------------------------- C11
M("C11", "both-cl-and-te", "connection.py",
  "                    if chunks is not None:\n                        chunked = True\n                        self.putheader(\"Transfer-Encoding\", \"chunked\")\n                else:\n                    self.putheader(\"Content-Length\", str(content_length))",
  "                    if chunks is not None:\n                        chunked = True\n                        self.putheader(\"Transfer-Encoding\", \"chunked\")\n                else:\n                    self.putheader(\"Content-Length\", str(content_length))\n                    if chunks is not None and chunked:\n                        self.putheader(\"Transfer-Encoding\", \"chunked\")", rule=None, benign=True)
M("C11", "te-emitted-but-not-chunk-framed", "connection.py",
  "                    if chunks is not None:\n                        chunked = True\n                        self.putheader(\"Transfer-Encoding\", \"chunked\")",
  "                    if chunks is not None:\n                        self.putheader(\"Transfer-Encoding\", \"chunked\")", rule="C11-R1")
M("C11", "caller-content-length-ignored", "connection.py",
  "            if \"content-length\" in header_keys:\n                chunked = False\n            elif \"transfer-encoding\" in header_keys:",
  "            if \"transfer-encoding\" in header_keys:", rule="C11-R1")
M("C11", "terminator-skipped-for-empty-iterable", "connection.py",
  "        if chunked:\n            self.send(b\"0\\r\\n\\r\\n\")", "        if chunked and chunks is not None:\n            self.send(b\"0\\r\\n\\r\\n\")", rule="C11-R1")
M("C11", "empty-chunks-not-skipped", "connection.py",
  "                if not chunk:\n                    continue\n", "", rule="C11-R2")
M("C11", "chunk-size-of-str-not-bytes", "connection.py",
  "                if isinstance(chunk, str):\n                    chunk = chunk.encode(\"utf-8\")\n                if chunked:\n                    if not isinstance(chunk, bytes):",
  "                size = len(chunk)\n                if isinstance(chunk, str):\n                    chunk = chunk.encode(\"utf-8\")\n                if chunked:\n                    self.send(b\"%x\\r\\n%b\\r\\n\" % (size, chunk))\n                    continue\n                if chunked:\n                    if not isinstance(chunk, bytes):", rule="C11-R2")
M("C11", "retry-resend-without-body-pos", "connectionpool.py",
  "                release_conn=release_conn,\n                chunked=chunked,\n                body_pos=body_pos,\n                preload_content=preload_content,\n                decode_content=decode_content,\n                **response_kw,\n            )\n\n        # Handle redirect?",
  "                release_conn=release_conn,\n                chunked=chunked,\n                preload_content=preload_content,\n                decode_content=decode_content,\n                **response_kw,\n            )\n\n        # Handle redirect?", rule="C11-R3")
M("C11", "failedtell-treated-as-no-rewind", "util/request.py",
  "    elif body_pos is _FAILEDTELL:\n        raise UnrewindableBodyError(", "    elif body_pos is _FAILEDTELL and body_seek is None:\n        raise UnrewindableBodyError(", rule="C11-R4")
M("C11", "seek-error-swallowed", "util/request.py",
  "        except OSError as e:\n            raise UnrewindableBodyError(\n                \"An error occurred when rewinding request body for redirect/retry.\"\n            ) from e",
  "        except OSError:\n            pass", rule="C11-R4")
M("C11", "303-keeps-body-pos", "connectionpool.py",
  "                # The recorded position belonged to the body that was dropped.\n                body_pos = None\n", "", rule="C11-R7")
M("C11", "str-length-before-encoding", "util/request.py",
  "        chunks = (to_bytes(body),)\n        content_length = len(chunks[0])", "        chunks = (to_bytes(body),)\n        content_length = len(body)", rule="C11-R6")
M("C11", "post-without-body-unframed", "util/request.py",
  "_METHODS_NOT_EXPECTING_BODY = {\"GET\", \"HEAD\", \"DELETE\", \"TRACE\", \"OPTIONS\", \"CONNECT\"}", "_METHODS_NOT_EXPECTING_BODY = {\"GET\", \"HEAD\", \"DELETE\", \"TRACE\", \"OPTIONS\", \"CONNECT\", \"POST\"}", rule="C11-R1")
M("C05", "303-keeps-body-pos", "connectionpool.py",
  "                # The recorded position belonged to the body that was dropped.\n                body_pos = None\n", "", rule="C05-R4")

# --------------------------------------------------------------------------- C12
M("C12", "read-all-skips-queue-again", "response.py",
  "            if len(self._decoded_buffer) > 0:\n                # Bytes decoded by earlier partial reads come first.\n                self._decoded_buffer.put(data)\n                data = self._decoded_buffer.get_all()\n", "", rule="C12-R1")
M("C12", "read1-returns-decoded-directly", "response.py",
  "        if amt is None:\n            return self._decoded_buffer.get_all()\n        return self._decoded_buffer.get(amt)\n\n    def stream(",
  "        if amt is None:\n            return decoded_data\n        return self._decoded_buffer.get(amt)\n\n    def stream(", rule="C12-R1")
M("C12", "stream-yields-unguarded", "response.py",
  "                data = self.read(amt=amt, decode_content=decode_content)\n\n                if data:\n                    yield data",
  "                data = self.read(amt=amt, decode_content=decode_content)\n\n                yield data", rule="C12-R2")
M("C12", "chunked-yields-empty-decoded", "response.py",
  "                if decoded:\n                    yield decoded\n\n            if decode_content:", "                yield decoded\n\n            if decode_content:", rule="C12-R2")
M("C12", "zstd-reuses-finished-obj-again", "response.py",
  "            if self._obj.eof:\n                # The previous frame ended exactly at the end of the last input.\n                self._obj = zstd.ZstdDecompressor().decompressobj()\n", "", rule="C12-R3")
M("C12", "gzip-no-new-obj-for-next-member", "response.py",
  "            self._state = GzipDecoderState.OTHER_MEMBERS\n            self._obj = zlib.decompressobj(16 + zlib.MAX_WBITS)", "            self._state = GzipDecoderState.OTHER_MEMBERS", rule="C12-R3")
M("C12", "multidecoder-forward-order", "response.py",
  "        for d in reversed(self._decoders):", "        for d in self._decoders:", rule="C12-R4")
M("C12", "multidecoder-flushes-first-applied", "response.py",
  "        for d in reversed(self._decoders):\n            if data:\n                data = d.decompress(data)\n            data += d.flush()", "        for d in self._decoders:\n            if data:\n                data = d.decompress(data)\n            data += d.flush()", rule="C12-R4")
M("C12", "zstd-registered-without-error-class", "response.py",
  "    if HAS_ZSTD:\n        DECODER_ERROR_CLASSES += (zstd.ZstdError,)\n", "", rule="C12-R5")
M("C12", "no-flush-on-read-all", "response.py",
  "        flush_decoder = amt is None or (amt != 0 and not data)", "        flush_decoder = amt != 0 and not data", rule="C12-R6")
M("C12", "stream-stops-with-queued-bytes", "response.py",
  "            while not is_fp_closed(self._fp) or len(self._decoded_buffer) > 0:", "            while not is_fp_closed(self._fp):", rule="C12-R7")
M("C12", "zstd-flush-accepts-incomplete", "response.py",
  "            if not self._obj.eof:\n                raise DecodeError(\"Zstandard data is incomplete\")\n", "", rule="C12-R3")
M("C12", "sized-read-returns-decoded-directly", "response.py",
  "            decoded_data = self._decode(data, decode_content, flush_decoder)\n            self._decoded_buffer.put(decoded_data)\n\n            while len(self._decoded_buffer) < amt and data:",
  "            decoded_data = self._decode(data, decode_content, flush_decoder)\n            if len(decoded_data) >= amt:\n                return decoded_data[:amt]\n            self._decoded_buffer.put(decoded_data)\n\n            while len(self._decoded_buffer) < amt and data:", rule="C12-R1")

# --------------------------------------------------------------------------- C13
M("C13", "read1-no-amount-accepts-short-body-again", "response.py",
  "            if amt != 0 and not data and (amt is not None or read1):", "            if amt is not None and amt != 0 and not data:", rule="C13-R1")
M("C13", "incomplete-read-raise-dropped", "response.py",
  "                    raise IncompleteRead(self._fp_bytes_read, self.length_remaining)\n", "                    log.debug(\"short body\")\n", rule="C13-R1")
M("C13", "enforce-only-when-remaining-large", "response.py",
  "                    and self.length_remaining is not None\n                    and self.length_remaining != 0\n",
  "                    and self.length_remaining is not None\n                    and self.length_remaining > 1\n", rule="C13-R1")
M("C13", "empty-size-line-is-zero", "response.py",
  "        line = line.split(b\";\", 1)[0]\n        try:\n            self.chunk_left = int(line, 16)",
  "        line = line.split(b\";\", 1)[0]\n        try:\n            self.chunk_left = int(line or b\"0\", 16)", rule="C13-R2")
M("C13", "bad-chunk-size-not-closed", "response.py",
  "        except ValueError:\n            self.close()\n            if line:", "        except ValueError:\n            if line:", rule="C13-R2")
M("C13", "chunk-size-decimal", "response.py",
  "            self.chunk_left = int(line, 16)", "            self.chunk_left = int(line)", rule="C13-R2")
M("C13", "chunk-payload-via-fp-read", "response.py",
  "            chunk = self._fp._safe_read(self.chunk_left)  # type: ignore[union-attr]\n            returned_chunk = chunk",
  "            chunk = self._fp.fp.read(self.chunk_left)  # type: ignore[union-attr]\n            returned_chunk = chunk", rule="C13-R3")
M("C13", "decode-error-returns-raw", "response.py",
  "        except self.DECODER_ERROR_CLASSES as e:\n            content_encoding = self.headers.get(\"content-encoding\", \"\").lower()\n            raise DecodeError(",
  "        except self.DECODER_ERROR_CLASSES as e:\n            content_encoding = self.headers.get(\"content-encoding\", \"\").lower()\n            if not data:\n                return data\n            raise DecodeError(", rule="C13-R4")
M("C13", "conflicting-lengths-take-first", "response.py",
  "                if len(lengths) > 1:\n                    raise InvalidHeader(", "                if len(lengths) > 2:\n                    raise InvalidHeader(", rule="C13-R5")
M("C13", "enforce-default-off-in-make-request", "connectionpool.py",
  "        decode_content: bool = True,\n        enforce_content_length: bool = True,\n    ) -> BaseHTTPResponse:", "        decode_content: bool = True,\n        enforce_content_length: bool = False,\n    ) -> BaseHTTPResponse:", rule="C13-R8")
M("C13", "preload-via-raw-read", "response.py",
  "            self._body = self.read(decode_content=decode_content)", "            self._body = self._fp.read() if self._fp else b\"\"", rule="C13-R7")
M("C13", "gzip-swallows-first-member-error", "response.py",
  "                if previous_state == GzipDecoderState.OTHER_MEMBERS:\n                    # Allow trailing garbage acceptable in other gzip clients\n                    return bytes(ret)\n                raise",
  "                return bytes(ret)", rule="C13-R4")
M("C13", "chunk-loop-stops-on-empty-chunk", "response.py",
  "                chunk = self._handle_chunk(amt)\n                decoded = self._decode(", "                chunk = self._handle_chunk(amt)\n                if not chunk:\n                    break\n                decoded = self._decode(", rule="C13-R2")

# --------------------------------------------------------------------------- C14
M("C14", "backslash-in-authority", "util/url.py",
  '    r"(?://([^\\\\/?#]*))?"', '    r"(?://([^/?#]*))?"', rule="C14-R2")
M("C14", "userinfo-first-at", "util/url.py",
  '            auth, _, host_port = authority.rpartition("@")', '            auth, _, host_port = authority.partition("@")', rule="C14-R3")
M("C14", "ipv6-not-lowered", "util/url.py",
  "                else:\n                    return host.lower()\n            elif not _IPV4_RE.match(host):", "                else:\n                    return host\n            elif not _IPV4_RE.match(host):", rule="C14-R4")
M("C14", "port-range-test-removed", "util/url.py",
  "            if not (0 <= port_int <= 65535):\n                raise LocationParseError(url)\n", "", rule="C14-R5")
M("C14", "int-outside-funnel", "util/url.py",
  "    if not path:\n        if query is not None or fragment is not None:", "    if port is not None:\n        port_int = int(port.strip())\n    if not path:\n        if query is not None or fragment is not None:", rule="C14-R1")
M("C14", "funnel-misses-attributeerror", "util/url.py",
  "    except (ValueError, AttributeError) as e:\n        raise LocationParseError(source_url) from e", "    except ValueError as e:\n        raise LocationParseError(source_url) from e", rule="C14-R1")
M("C14", "redos-in-scheme-pattern", "util/url.py",
  '_SCHEME_RE = re.compile(r"^(?:[a-zA-Z][a-zA-Z0-9+-]*:|/)")', '_SCHEME_RE = re.compile(r"^(?:(?:[a-zA-Z]+[a-zA-Z0-9+-]*)+:|/)")', rule="C14-R6")
M("C14", "port-digits-unbounded", "util/url.py",
  '_HOST_PORT_PAT = ("^(%s|%s|%s)(?::0*?(|0|[1-9][0-9]{0,4}))?$") % (', '_HOST_PORT_PAT = ("^(%s|%s|%s)(?::0*?(|0|[1-9][0-9]*))?$") % (', rule="C14-R5")
M("C14", "uri-re-not-dotall", "util/url.py",
  '    r"(?:#(.*))?$",\n    re.UNICODE | re.DOTALL,\n)', '    r"(?:#(.*))?$",\n    re.UNICODE,\n)', rule="C14-R2")
M("C14", "dot-segment-quadratic", "util/url.py",
  "        if segment != \"..\":\n            output.append(segment)", "        if segment != \"..\" and segment not in output[:0]:\n            output.insert(0, segment)\n            output.append(output.pop(0))", rule="C14-R7")
M("C14", "idna-error-escapes", "util/url.py",
  "        except idna.IDNAError:\n            raise LocationParseError(\n                f\"Name '{name}' is not a valid IDNA label\"\n            ) from None",
  "        except idna.IDNAError:\n            raise RuntimeError(name) from None", rule="C14-R1")
M("C14", "scheme-not-lowered", "util/url.py",
  "        if scheme:\n            scheme = scheme.lower()\n\n        if authority:", "        if authority:", rule="C14-R4")

# --------------------------------------------------------------------------- C15
M("C15", "absolute-target-with-userinfo-again", "connectionpool.py",
  "            url = to_str(parsed_url._replace(auth=None, fragment=None).url)", "            url = to_str(parsed_url.url)", rule="C15-R2")
M("C15", "absolute-target-keeps-fragment", "connectionpool.py",
  "            url = to_str(parsed_url._replace(auth=None, fragment=None).url)", "            url = to_str(parsed_url._replace(auth=None).url)", rule="C15-R2")
M("C15", "request-uri-includes-fragment", "util/url.py",
  "            uri += \"?\" + self.query\n\n        return uri", "            uri += \"?\" + self.query\n        if self.fragment:\n            uri += \"#\" + self.fragment\n\n        return uri", rule="C15-R2")
M("C15", "dial-host-without-trailing-dot", "connection.py",
  "                (self._dns_host, self.port),", "                (self.host, self.port),", rule="C15-R3")
M("C15", "host-property-keeps-dot", "connection.py",
  "        return self._dns_host.rstrip(\".\")", "        return self._dns_host", rule="C15-R3")
M("C15", "sni-brackets-stripped-for-names", "connection.py",
  "        if is_ipaddress(normalized):\n            server_hostname = normalized", "        server_hostname = normalized", rule="C15-R4")
M("C15", "pool-selected-by-netloc-split", "poolmanager.py",
  "        conn = self.connection_from_host(u.host, port=u.port, scheme=u.scheme)", "        conn = self.connection_from_host(url.split(\"//\")[-1].split(\"/\")[0].split(\":\")[0], port=u.port, scheme=u.scheme)", rule="C15-R1")
M("C15", "default-port-always-80", "poolmanager.py",
  "            port = port_by_scheme.get(request_context[\"scheme\"].lower(), 80)", "            port = 80", rule="C15-R1")
M("C15", "pool-host-keeps-brackets", "connectionpool.py",
  "        self.host = _normalize_host(host, scheme=self.scheme)", "        self.host = normalize_host(host, scheme=self.scheme)", rule="C15-R5")
M("C15", "key-host-case-sensitive", "poolmanager.py",
  "    context[\"host\"] = context[\"host\"].lower()\n", "", rule="C15-R6")

# --------------------------------------------------------------------------- C19
M("C19", "get-timeout-returns-pool-object", "connectionpool.py",
  "        if timeout is _DEFAULT_TIMEOUT:\n            return self.timeout.clone()", "        if timeout is _DEFAULT_TIMEOUT:\n            return self.timeout", rule="C19-R1")
M("C19", "clone-copies-start-stamp", "util/timeout.py",
  "        return Timeout(connect=self._connect, read=self._read, total=self.total)", "        t = Timeout(connect=self._connect, read=self._read, total=self.total)\n        t._start_connect = self._start_connect\n        return t", rule="C19-R1")
M("C19", "bool-accepted-as-timeout", "util/timeout.py",
  "        if isinstance(value, bool):\n            raise ValueError(\n                \"Timeout cannot be a boolean value. It must \"\n                \"be an int, float or None.\"\n            )\n", "", rule="C19-R2")
M("C19", "zero-timeout-accepted", "util/timeout.py",
  "            if value <= 0 or value != value:", "            if value < 0 or value != value:", rule="C19-R2")
M("C19", "total-stored-unvalidated", "util/timeout.py",
  "        self.total = self._validate_timeout(total, \"total\")", "        self.total = total", rule="C19-R2")
M("C19", "connect-timeout-ignores-total", "util/timeout.py",
  "        return min(self._connect, self.total)  # type: ignore[type-var]", "        return self._connect", rule="C19-R3")
M("C19", "read-timeout-not-clamped-at-zero", "util/timeout.py",
  "            return max(0, min(self.total - self.get_connect_duration(), self._read))", "            return min(self.total - self.get_connect_duration(), self._read)", rule="C19-R3")
M("C19", "read-timeout-ignores-elapsed", "util/timeout.py",
  "            return max(0, self.total - self.get_connect_duration())", "            return max(0, self.total)", rule="C19-R3")
M("C19", "read-timeout-computed-before-request", "connectionpool.py",
  "        try:\n            conn.request(\n                method,\n                url,\n                body=body,",
  "        read_timeout = timeout_obj.read_timeout\n        try:\n            conn.request(\n                method,\n                url,\n                body=body,", rule=None, benign=True)
M("C19", "read-timeout-only-computed-before-request", "connectionpool.py",
  "        # Reset the timeout for the recv() on the socket\n        read_timeout = timeout_obj.read_timeout\n", "", rule="C19-R4")
M("C19", "zero-read-budget-waits", "connectionpool.py",
  "            if read_timeout == 0:\n                raise ReadTimeoutError(\n                    self, url, f\"Read timed out. (read timeout={read_timeout})\"\n                )\n", "", rule="C19-R4")
M("C19", "clock-started-after-validate", "connectionpool.py",
  "        timeout_obj.start_connect()\n        conn.timeout = Timeout.resolve_default_timeout(timeout_obj.connect_timeout)\n\n        try:\n            # Trigger any extra validation we need to do.\n            try:\n                self._validate_conn(conn)",
  "        conn.timeout = Timeout.resolve_default_timeout(timeout_obj.connect_timeout)\n\n        try:\n            # Trigger any extra validation we need to do.\n            try:\n                self._validate_conn(conn)\n                timeout_obj.start_connect()", rule="C19-R4")
M("C19", "getresponse-without-settimeout", "connection.py",
  "        # we need to set the timeout on the socket.\n        self.sock.settimeout(self.timeout)\n", "", rule="C19-R5")
M("C19", "request-timeout-min-with-pool", "connectionpool.py",
  "        if isinstance(timeout, Timeout):\n            return timeout.clone()", "        if isinstance(timeout, Timeout):\n            return timeout.clone() if timeout.total else self.timeout.clone()", rule="C19-R6")
M("C19", "eagain-not-mapped", "connectionpool.py",
  "        if hasattr(err, \"errno\") and err.errno in _blocking_errnos:\n            raise ReadTimeoutError(", "        if hasattr(err, \"errno\") and err.errno in _blocking_errnos and url:\n            raise ReadTimeoutError(", rule="C19-R7")


# ---- C10-R6 on effect rows: the checked term is the appended term
M("C10", "h2-name-check-dropped-for-bytes", "http2/connection.py",
  "        if not _is_legal_header_name(header):\n",
  "        if isinstance(header, str) and not _is_legal_header_name(header):\n", rule="C10-R6")
M("C10", "h2-value-checked-before-encode-only-str", "http2/connection.py",
  "            if _is_illegal_header_value(value):\n",
  "            if len(values) == 1 and _is_illegal_header_value(value):\n", rule="C10-R6")
M("C10", "h2-name-checked-then-stripped", "http2/connection.py",
  "            self._headers.append((header, value))",
  "            self._headers.append((header.strip(), value))", rule="C10-R6")
MUTANTS.append(dict(prop="C10", name="benign-h2-validators-inlined", benign=True, rule=None, regex=False, edits=[
    ("http2/connection.py", "        if not _is_legal_header_name(header):\n", "        if RE_IS_LEGAL_HEADER_NAME.match(header) is None:\n"),
    ("http2/connection.py", "            if _is_illegal_header_value(value):\n", "            if RE_IS_ILLEGAL_HEADER_VALUE.search(value) is not None:\n"),
]))
MUTANTS.append(dict(prop="C10", name="benign-h2-renamed-locals-and-helper", benign=True, rule=None, regex=False, edits=[
    ("http2/connection.py", "        header = header.encode() if isinstance(header, str) else header\n        header = header.lower()  # A lot of upstream code uses capitalized headers.\n        if not _is_legal_header_name(header):\n            raise ValueError(f\"Illegal header name {str(header)}\")\n",
     "        name = self._wire_name(header)\n        if not _is_legal_header_name(name):\n            raise ValueError(f\"Illegal header name {str(name)}\")\n"),
    ("http2/connection.py", "            self._headers.append((header, value))", "            self._headers.append((name, value))"),
    ("http2/connection.py", "    def putheader(self, header: str | bytes, *values: str | bytes) -> None:  # type: ignore[override]\n",
     "    @staticmethod\n    def _wire_name(header: str | bytes) -> bytes:\n        raw = header.encode() if isinstance(header, str) else header\n        return raw.lower()\n\n    def putheader(self, header: str | bytes, *values: str | bytes) -> None:  # type: ignore[override]\n"),
]))

# ---- C13-R7 / R8 on effect rows
M("C13", "make-request-drops-enforce-option", "connectionpool.py",
  "                decode_content=decode_content,\n                enforce_content_length=enforce_content_length,\n            )",
  "                decode_content=decode_content,\n            )", rule="C13-R8")
M("C13", "response-options-enforce-from-preload", "connection.py",
  "            enforce_content_length=enforce_content_length,\n        )\n\n        if headers is None:",
  "            enforce_content_length=preload_content,\n        )\n\n        if headers is None:", rule="C13-R8")
M("C13", "getresponse-enforce-only-when-preloading", "connection.py",
  "            enforce_content_length=resp_options.enforce_content_length,",
  "            enforce_content_length=resp_options.enforce_content_length and resp_options.preload_content,", rule="C13-R8")
M("C13", "response-forgets-enforce-for-head", "response.py",
  "        self.enforce_content_length = enforce_content_length\n        self.auto_close = auto_close\n",
  "        self.enforce_content_length = enforce_content_length and request_method != \"HEAD\"\n        self.auto_close = auto_close\n", rule="C13-R8")
M("C13", "data-reads-fp-directly", "response.py",
  "            return self.read(cache_content=True)", "            self._body = self._fp.read()\n            return self._body", rule="C13-R7")
MUTANTS.append(dict(prop="C13", name="benign-enforce-chain-through-locals-and-positional", benign=True, rule=None, regex=False, edits=[
    ("connectionpool.py", "                decode_content=decode_content,\n                enforce_content_length=enforce_content_length,\n            )",
     "                decode_content=decode_content,\n                **{\"enforce_content_length\": enforce_content_length},\n            )"),
    ("connection.py", "        self._response_options = _ResponseOptions(\n            request_method=method,\n            request_url=url,\n            preload_content=preload_content,\n            decode_content=decode_content,\n            enforce_content_length=enforce_content_length,\n        )",
     "        enforce = enforce_content_length\n        self._response_options = _ResponseOptions(method, url, preload_content, decode_content, enforce)"),
    ("response.py", "        if preload_content and not self._body:\n            self._body = self.read(decode_content=decode_content)",
     "        wants_preload = bool(preload_content)\n        if wants_preload and not self._body:\n            preloaded = self.read(decode_content=decode_content)\n            self._body = preloaded"),
]))

# ---- C15-R8 / F16: a repaired scratch variant must be silent (the URL-derived Host wins over a carried one)
M("C15", "repair:F16-url-derived-host-wins", "poolmanager.py",
  "        netloc = parse_url(url).netloc\n        if netloc:\n            headers_[\"Host\"] = netloc\n\n        if headers:\n            headers_.update(headers)\n        return headers_",
  "        if headers:\n            headers_.update(headers)\n        netloc = parse_url(url).netloc\n        if netloc:\n            headers_[\"Host\"] = netloc\n        return headers_", rule=None, benign=True)
M("C15", "forwarded-request-without-derived-host", "poolmanager.py",
  "            headers = kw.get(\"headers\", self.headers)\n            kw[\"headers\"] = self._set_proxy_headers(url, headers)\n\n        return super().urlopen(method, url, redirect=redirect, **kw)",
  "            return super().urlopen(method, url, redirect=redirect, **kw)\n\n        return super().urlopen(method, url, redirect=redirect, **kw)", rule="C15-R8")

# ---- C14-R9 / F18: a repaired scratch variant (each '%' examined on its own) must be silent
M("C14", "repair:F18-escape-examined-per-position", "util/url.py",
  "        if (is_percent_encoded and byte == b\"%\") or (\n            byte_ord < 128 and byte.decode() in allowed_chars\n        ):",
  "        if (byte == b\"%\" and _PERCENT_RE.match(uri_bytes[i : i + 3].decode(\"latin-1\"))) or (\n            byte_ord < 128 and byte.decode() in allowed_chars\n        ):", rule=None, benign=True)

# --------------------------------------------------------------------------- seeded changes written by independent sub-agents (see /verif/seeded/)
def S(prop, name, rule=None):
    MUTANTS.append(dict(prop=prop, name="seed:" + name, patch=f"seeded/{prop}-{name}/patch.diff", rule=rule, benign=False))


S("C01", "placeholder-only-with-conn", "C01-R1a")
S("C02", "qsize-live-field", "C02-R3")
S("C03", "is-connected-peek", "C03-R2")
S("C04", "method-gate-only-on-forcelist", "C04-R5")
S("C05", "manager-default-dropped", "C05-R1")
S("C06", "strip-by-pool-identity", "C06-R1")
S("C07", "match-only-when-we-disabled", "C07-R3")
S("C18", "merge-truthiness", "C18-R8")
S("C08", "bare-star-matches-empty-label", "C08-R1")
S("C09", "proxy-headers-merged-in-place", "C09-R3")
S("C10", "buffer-length-in-items", "C11-R6")
S("C11", "rewind-forgets-position", "C11-R4")
S("C12", "chunk-left-zero-not-none", "C13-R9")
S("C13", "gzip-tolerant-too-early", "C13-R4")
# round 2
S("C01", "catcher-closes-conn-or-response", "C01-R6")
S("C02", "drain-skips-empty-body", "C01-R7")
S("C04", "status-budget-only-forcelist", "C04-R9")
S("C15", "target-form-by-parsed-host", "C15-R7")
S("C16", "extend-shares-source-lists", "C16-R2")
S("C17", "lookup-outside-lock", "C17-R6")
S("C20", "trailing-lf-fast-path", "C20-R2")
M("C20", "escape-fast-path-anchored-Z", "fields.py",
  "    value = value.translate({10: \"%0A\", 13: \"%0D\", 34: \"%22\"})",
  "    import re as _re\n    if not _re.compile(r'[^\"\\r\\n]*\\Z').match(value):\n        value = value.translate({10: \"%0A\", 13: \"%0D\", 34: \"%22\"})", rule=None, benign=True)
M("C20", "escape-fast-path-fullmatch", "fields.py",
  "    value = value.translate({10: \"%0A\", 13: \"%0D\", 34: \"%22\"})",
  "    import re as _re\n    if _re.fullmatch(r'[^\"\\r\\n]*', value) is None:\n        value = value.translate({10: \"%0A\", 13: \"%0D\", 34: \"%22\"})", rule=None, benign=True)
M("C20", "escape-fast-path-dollar", "fields.py",
  "    value = value.translate({10: \"%0A\", 13: \"%0D\", 34: \"%22\"})",
  "    import re as _re\n    if not _re.match(r'[^\"\\r\\n]*$', value):\n        value = value.translate({10: \"%0A\", 13: \"%0D\", 34: \"%22\"})", rule="C20-R2")
M("C01", "drain-fast-path-when-already-released", "response.py",
  "        try:\n            self.read()\n        except (HTTPError, OSError, BaseSSLError, HTTPException):\n            pass",
  "        if self._connection is None:\n            return\n        try:\n            self.read()\n        except (HTTPError, OSError, BaseSSLError, HTTPException):\n            pass", rule=None, benign=True)
S("C06", "empty-stripped-headers-redefaulted", "C06-R7")
S("C08", "cn-consulted-with-ip-only-sans", "C08-R4")
S("C10", "header-keys-not-str-normalised", "C10-R5")
S("C14", "scheme-lowered-only-in-url-new", "C14-R4")
S("C19", "request-timeout-not-applied-before-tunnel", "C19-R4")
M("C06", "defaults-when-headers-is-none", "poolmanager.py",
  "        if \"headers\" not in kw:\n            kw[\"headers\"] = self.headers", "        if kw.get(\"headers\") is None:\n            kw[\"headers\"] = self.headers", rule=None, benign=True)
M("C06", "defaults-when-headers-falsy", "poolmanager.py",
  "        if \"headers\" not in kw:\n            kw[\"headers\"] = self.headers", "        if not kw.get(\"headers\"):\n            kw[\"headers\"] = self.headers", rule="C06-R7")
# ---- C16 effect tables
M("C16", "add-combine-joins-first-value", "_collections.py", "                vals[-1] = vals[-1] + \", \" + val", "                vals[1] = vals[1] + \", \" + val", rule="C16-R6")
M("C16", "add-combine-default-true", "_collections.py", "    def add(self, key: str, val: str, *, combine: bool = False) -> None:", "    def add(self, key: str, val: str, *, combine: bool = True) -> None:", rule="C16-R6")
M("C16", "add-prepends", "_collections.py", "                vals.append(val)", "                vals.insert(1, val)", rule="C16-R6")
M("C16", "add-replaces-spelling", "_collections.py", "                vals.append(val)", "                vals[0] = key\n                vals.append(val)", rule="C16-R6")
M("C16", "getitem-joins-without-space", "_collections.py", "        return \", \".join(val[1:])\n\n    def __delitem__", "        return \",\".join(val[1:])\n\n    def __delitem__", rule="C16-R5")
M("C16", "getitem-includes-spelling", "_collections.py", "        return \", \".join(val[1:])\n\n    def __delitem__", "        return \", \".join(val[0:])\n\n    def __delitem__", rule="C16-R5")
M("C16", "extend-from-headerdict-merged", "_collections.py", "            for key, val in other.iteritems():\n                self.add(key, val)", "            for key, val in other.itermerged():\n                self.add(key, val)", rule="C16-R7")
M("C16", "extend-mapping-by-assignment", "_collections.py", "            for key, val in other.items():\n                self.add(key, val)", "            for key, val in other.items():\n                self[key] = val", rule="C16-R")
MUTANTS.append(dict(prop="C16", name="extend-kwargs-first", rule="C16-R7", benign=False, edits=[
    ("_collections.py", "        other = args[0] if len(args) >= 1 else ()\n", "        other = args[0] if len(args) >= 1 else ()\n        for key, value in kwargs.items():\n            self.add(key, value)\n"),
    ("_collections.py", "                self.add(key, other[key])\n\n        for key, value in kwargs.items():\n            self.add(key, value)\n", "                self.add(key, other[key])\n"),
]))
M("C16", "extend-combines", "_collections.py", "            for key, value in other:\n                self.add(key, value)", "            for key, value in other:\n                self.add(key, value, combine=True)", rule="C16-R7")
M("C16", "iter-yields-lowercase-key", "_collections.py", "        for vals in self._container.values():\n            yield vals[0]", "        for k in self._container:\n            yield k", rule="C16-R8")
M("C16", "iteritems-skips-first-value", "_collections.py", "            for val in vals[1:]:\n                yield vals[0], val", "            for val in vals[2:]:\n                yield vals[0], val", rule="C16-R8")
M("C16", "itermerged-yields-lookup-key", "_collections.py", "            yield val[0], \", \".join(val[1:])", "            yield key.lower(), \", \".join(val[1:])", rule="C16-R8")
M("C16", "getlist-returns-last-only", "_collections.py", "            return vals[1:]\n", "            return vals[-1:]\n", rule="C16-R8")
M("C16", "copy-from-drops-repeats", "_collections.py", "            self._container[key.lower()] = [key, *val]", "            self._container[key.lower()] = [key, val[0]]", rule="C16-R9")
M("C16", "or-extends-self", "_collections.py", "        result = self.copy()\n        result.extend(maybe_constructable)\n        return result", "        self.extend(maybe_constructable)\n        return self.copy()", rule="C16-R")
M("C16", "ror-order-swapped", "_collections.py", "        result = type(self)(maybe_constructable)\n        result.extend(self)\n        return result", "        result = self.copy()\n        result.extend(maybe_constructable)\n        return result", rule="C16-R9")
M("C16", "discard-swallows-everything", "_collections.py", "        try:\n            del self[key]\n        except KeyError:\n            pass", "        try:\n            del self[key]\n        except Exception:\n            pass", rule=None, benign=True)
M("C16", "benign-add-explicit-branch", "_collections.py",
  "        vals = self._container.setdefault(key_lower, new_vals)\n        if new_vals is not vals:",
  "        vals = self._container.get(key_lower)\n        if vals is None:\n            self._container[key_lower] = new_vals\n        else:", rule=None, benign=True)
M("C16", "benign-getitem-temporaries", "_collections.py", "        val = self._container[key.lower()]\n        return \", \".join(val[1:])\n\n    def __delitem__",
  "        lowered = key.lower()\n        stored = self._container[lowered]\n        values = stored[1:]\n        sep = \", \"\n        return sep.join(values)\n\n    def __delitem__", rule=None, benign=True)
M("C16", "benign-iteritems-local-spelling", "_collections.py", "            for val in vals[1:]:\n                yield vals[0], val", "            spelling = vals[0]\n            rest = vals[1:]\n            for val in rest:\n                yield spelling, val", rule=None, benign=True)
S("C03", "generator-exit-is-clean", "C01-R6")
# round 3 (two per property)
S("C01", "socket-setup-helper-leaks-on-failure", "C01-R12")
S("C01", "drain-conn-early-return-when-consumed", "C01-R7")
S("C02", "release-closes-after-put", "C01-R4")
S("C02", "close-spends-finalizer", "C02-R4")
S("C03", "dropped-conn-swapped-for-unprobed-idle", "C01-R1g")
S("C03", "release-unread-chunked-truthiness", "C03-R8")
S("C04", "httpexception-not-wrapped-as-protocolerror", "C04-R13")
S("C04", "jitter-after-backoff-max-clamp", "C04-R4")
S("C05", "retry-resend-drops-redirect-flag", "C05-R3")
S("C05", "303-rewrite-skipped-for-get-head", "C05-R4")
S("C06", "location-resolved-after-origin-check", "C06-R1")
S("C06", "frozenset-removal-set-not-lowered", "C06-R2")
S("C07", "default-certs-with-ca-cert-data", "C07-R11")
S("C07", "dnsname-san-satisfies-ip-host", "C08-R4")
S("C08", "wildcard-pattern-cache-by-dn", "C08-R1")
S("C08", "unusable-san-skipped-enables-cn", "C08-R4")
S("C09", "proxy-asserts-applied-to-origin-in-tunnel", "C09-R5")
S("C09", "set-tunnel-strips-brackets", "C09-R7")
S("C10", "header-keys-not-to-str", "C10-R5")
S("C10", "encode-target-partition-query-before-fragment", "C10-R2")
S("C11", "chunk-size-from-str-length", "C11-R2")
S("C11", "position-not-recorded-when-total-none", "C11-R3")
S("C12", "empty-decoded-not-queued", "C12-R10")
S("C12", "accounting-before-last-piece-test", "C13-R1")
S("C13", "release-unread-chunked-truthiness", "C03-R8")
S("C13", "reset-treated-as-eof-for-unframed", "C01-R6")
S("C14", "percent-escape-class-unicode-digits", "C14-R8")
S("C14", "userinfo-split-first-at", "C14-R3")
S("C15", "sni-keeps-trailing-dot-in-tunnel", "C15-R3")
S("C15", "redial-relative-name-on-gaierror", "C15-R3")
S("C16", "setitem-overwrites-in-place-keeps-spelling", "C16-R5")
S("C16", "combine-joins-with-filter-none", "C16-R6")
S("C17", "lookup-before-lock", "C17-R1")
S("C17", "clear-disposes-under-lock", "C17-R2")
S("C18", "merge-returns-live-defaults", "C18-R3")
S("C18", "context-remerges-defaults", "C18-R2")
S("C19", "read-timeout-unclamped-branch", "C19-R3")
S("C19", "read-budget-computed-before-request", "C19-R4")
S("C20", "requestfield-keeps-callers-headers", "C20-R6")
S("C20", "iter-fields-dispatch-on-dict", "C20-R7")

# ---- round 4: one independent seed per property (tools/record_seed4.py; DESIGN 16)
S("C01", "drain-conn-large-body-close-without-release", "C01-R7")
S("C02", "close-consumes-finalizer", "C02-R4")
S("C03", "is-connected-peek-accepts-pending-data", "C03-R2")
S("C04", "retry-after-bypasses-allowed-methods", "C04-R5")
S("C05", "from-int-default-truthiness", "C05-R1")
S("C06", "empty-stripped-headers-fall-back-to-manager-defaults", "C06-R7")
S("C07", "own-hostname-match-gated-on-stale-flag", "C07-R3")
S("C08", "cn-fallback-gated-on-dns-san-only", "C08-R4")
S("C09", "tunnel-origin-hostname-only-for-http-proxy", "C07-R8")
S("C10", "encode-target-fragment-only-after-query", "C10-R2")
S("C11", "failed-tell-position-rerecorded-instead-of-raising", "C11-R4")
S("C12", "handle-chunk-exact-amt-stays-in-chunk", "C13-R9")
S("C13", "httplib-incomplete-read-swallowed-without-content-length", "C01-R6")
S("C14", "port-pattern-unicode-digits", "C14-R5")
S("C15", "sni-trailing-dot-kept-in-tunnel", "C15-R3")
S("C16", "extend-shares-source-value-lists", "C16-R2")
S("C17", "pool-get-or-create-via-nonatomic-setdefault", "C17-R6")
S("C18", "pool-key-falsy-values-collapse-to-none", "C18-R4")
S("C19", "read-timeout-computed-before-lazy-connect", "C19-R4")
S("C20", "escape-fast-path-raw-regex-class", "C20-R2")
MUTANTS.append(dict(prop="C03", name="fixed:F15-early-release-recycles-unread-body", patch="selftest/patches/f15_fix.diff", reverse=True, rule="C03-R8", benign=False))
# ---- C08-R8 / F20: a repaired scratch variant (the refusal is deferred until every entry was examined) must be silent
MUTANTS.append(dict(prop="C08", name="repair:F20-refusal-deferred-until-all-entries-examined", patch="selftest/patches/f20_repair.diff", rule=None, benign=True))
# ---- C15-R1 / F21: a repaired scratch variant (`if port is None:`) must be silent
MUTANTS.append(dict(prop="C15", name="repair:F21-default-port-only-when-port-is-none", patch="selftest/patches/f21_repair.diff", rule=None, benign=True))
# ---- C13-R10 / F22a: urllib3's chunk reader repaired (hex-digits pattern before int): its obligation is silent (F22b, the stdlib reader, stays)
MUTANTS.append(dict(prop="C13", name="repair:F22a-chunk-size-shape-tested-before-int", patch="selftest/patches/f22a_repair.diff", rule=None, benign=True))
# ---- C12-R4 / F23 (fixed in /repo): the reverse of the fix must fire
MUTANTS.append(dict(prop="C12", name="fixed:F23-multidecoder-flush-reaches-one-layer-only", patch="selftest/patches/f23_fix.diff", reverse=True, rule="C12-R4", benign=False))
MUTANTS.append(dict(prop="C13", name="fixed:F23-multidecoder-flush-reaches-one-layer-only", patch="selftest/patches/f23_fix.diff", reverse=True, rule="C13-R4", benign=False))
# ---- C19-R2 / F30 (fixed in /repo): the reverse of the fix must fire
MUTANTS.append(dict(prop="C19", name="fixed:F30-timeout-accepts-nan", patch="selftest/patches/f30_fix.diff", reverse=True, rule="C19-R2", benign=False))
# ---- C02-R10 / F29: a scratch variant with wake-up tokens and a closed-state re-check must be silent under C02
MUTANTS.append(dict(prop="C02", name="repair:F29-close-wakes-waiters", patch="selftest/patches/f29_repair.diff", rule=None, benign=True))
# ---- C11-R2 / F28 (fixed in /repo): the reverse of the fix must fire
MUTANTS.append(dict(prop="C11", name="fixed:F28-chunk-size-counts-items-of-wide-buffers", patch="selftest/patches/f28_fix.diff", reverse=True, rule="C11-R2", benign=False))
# ---- C10-R8 / F27 (fixed in /repo): the reverse of the fix must fire
MUTANTS.append(dict(prop="C10", name="fixed:F27-connect-line-injection-through-url-host", patch="selftest/patches/f27_fix.diff", reverse=True, rule="C10-R8", benign=False))
# ---- C09-R13 / F26 (fixed in /repo): the reverse of the fix must fire
MUTANTS.append(dict(prop="C09", name="fixed:F26-connected-to-proxy-before-tunnel", patch="selftest/patches/f26_fix.diff", reverse=True, rule="C09-R13", benign=False))
# ---- C12-R11 / F25: a scratch variant in which read()/read1() refuse to take over from the chunk reader must be silent
MUTANTS.append(dict(prop="C12", name="repair:F25-read-refuses-after-chunk-reader-started", patch="selftest/patches/f25_guard.diff", rule=None, benign=True))
# ---- C12-R6 / F24 (fixed in /repo): the reverse of the fix must fire
MUTANTS.append(dict(prop="C12", name="fixed:F24-end-of-body-reported-before-decoder-flush", patch="selftest/patches/f24_fix.diff", reverse=True, rule="C12-R6", benign=False))
MUTANTS.append(dict(prop="C13", name="fixed:F24-end-of-body-reported-before-decoder-flush", patch="selftest/patches/f24_fix.diff", reverse=True, rule="C12-R6", benign=False))
MUTANTS.append(dict(prop="C13", name="fixed:F19-stale-flush-flag-in-read-refill-loop", patch="selftest/patches/f19_fix.diff", reverse=True, rule="C12-R6", benign=False))
MUTANTS.append(dict(prop="C12", name="fixed:F19-stale-flush-flag-in-read-refill-loop", patch="selftest/patches/f19_fix.diff", reverse=True, rule="C12-R6", benign=False))
S("C07", "matcher-loses-end-anchor", "C08-R1")
S("C09", "hostname-check-decided-once", "C07-R3")
S("C05", "disabled-total-stays-false", "C04-R9")
M("C08", "benign-rematch-with-anchors", "util/ssl_match_hostname.py",
  "    pat = re.compile(r\"\\A\" + r\"\\.\".join(pats) + r\"\\Z\", re.IGNORECASE)\n    return pat.match(hostname)",
  "    return re.match(r\"\\A\" + r\"\\.\".join(pats) + r\"\\Z\", hostname, re.IGNORECASE)", rule=None, benign=True)
M("C08", "benign-fullmatch", "util/ssl_match_hostname.py",
  "    pat = re.compile(r\"\\A\" + r\"\\.\".join(pats) + r\"\\Z\", re.IGNORECASE)\n    return pat.match(hostname)",
  "    body = r\"\\.\".join(pats)\n    return re.fullmatch(body, hostname, flags=re.IGNORECASE)", rule=None, benign=True)
M("C08", "benign-extend-generator", "util/ssl_match_hostname.py",
  "    for frag in remainder:\n        pats.append(re.escape(frag))", "    pats.extend(re.escape(frag) for frag in remainder)", rule=None, benign=True)
M("C08", "benign-rename-locals", "util/ssl_match_hostname.py",
  "    leftmost = parts[0]\n    remainder = parts[1:]\n\n    wildcards = leftmost.count(\"*\")",
  "    leftmost = first_label = parts[0]\n    remainder = parts[1:]\n\n    wildcards = first_label.count(\"*\")", rule=None, benign=True)
M("C08", "rematch-without-end-anchor", "util/ssl_match_hostname.py",
  "    pat = re.compile(r\"\\A\" + r\"\\.\".join(pats) + r\"\\Z\", re.IGNORECASE)\n    return pat.match(hostname)",
  "    return re.match(r\"\\.\".join(pats), hostname, re.IGNORECASE)", rule="C08-R1")
M("C08", "dollar-instead-of-Z", "util/ssl_match_hostname.py", "+ r\"\\Z\", re.IGNORECASE)", "+ r\"$\", re.IGNORECASE)", rule="C08-R1")
M("C08", "last-label-dropped", "util/ssl_match_hostname.py", "    for frag in remainder:\n        pats.append(re.escape(frag))", "    for frag in remainder[:-1]:\n        pats.append(re.escape(frag))", rule="C08-R1")


# --------------------------------------------------------------------------- behaviour-preserving maintenance changes written by independent sub-agents
# (given only the property text; each was checked by them against the pinned suite and a differential sweep).  They must stay silent.
def B(prop, n):
    MUTANTS.append(dict(prop=prop, name=f"benign-agent:{prop}-{n}", patch=f"selftest/patches/bn_{prop}_{n}.diff", rule=None, benign=True))


for _n in range(1, 7):
    B("C19", _n)
for _n in range(1, 7):
    B("C05", _n)
for _n in range(1, 7):
    B("C20", _n)
for _n in range(1, 7):
    B("C08", _n)
for _n in range(1, 7):
    B("C07", _n)
for _n in range(1, 7):
    B("C14", _n)
for _n in range(1, 7):
    B("C12", _n)
    MUTANTS.append(dict(prop="C13", name=f"benign-agent:C12-{_n}-under-C13", patch=f"selftest/patches/bn_C12_{_n}.diff", rule=None, benign=True))
S("C11", "short-read-taken-for-eof", "C11-R8")
S("C12", "deflate-fallback-only-on-first-call", "C12-R9")
S("C13", "catcher-skips-close-when-response-closed", "C01-R6")
S("C18", "key-freezes-mapping-keys-only", "C18-R4")
for _n in (1, 3, 4, 5, 6):
    B("C01", _n)
for _n in range(1, 7):
    B("C04", _n)
for _n in range(1, 7):
    B("C02", _n)
for _n in range(1, 7):
    B("C03", _n)
for _n in range(1, 7):
    B("C06", _n)
for _n in range(1, 7):
    B("C09", _n)
for _n in range(1, 7):
    B("C10", _n)
for _n in range(1, 7):
    B("C11", _n)
for _n in range(1, 7):
    B("C13", _n)
for _n in range(1, 7):
    B("C15", _n)
for _n in range(1, 7):
    B("C17", _n)
for _n in range(1, 7):
    B("C18", _n)


# second, more adventurous round of independent behaviour-preserving changes (control flow, helper extraction, idiom swaps,
# keyword / dict-splat arguments, harmless additions, an algorithmic rewrite of one small function)
def B2(prop, n):
    MUTANTS.append(dict(prop=prop, name=f"benign-agent-2:{prop}-{n}", patch=f"selftest/patches/bn2_{prop}_{n}.diff", rule=None, benign=True))


for _p in ("C01", "C02", "C03", "C04", "C05", "C06", "C07", "C08", "C09", "C10", "C11", "C12", "C13", "C14", "C15", "C16", "C17", "C18", "C19", "C20"):
    for _n in range(1, 7):
        B2(_p, _n)
for _n in range(1, 7):
    B("C16", _n)


# --------------------------------------------------------------------------- every benign patch under every property whose code it touches
# A behaviour-preserving patch must be silent under ALL checks (DESIGN 14.1).  For each stored benign patch and each property other
# than the one it was written for, a `cross:` variant is registered when the patch touches a file that the property's own
# variants touch (its anchored code).  `python -m sa.selftest --cross` and the thorough tier run them.
def _files_of_patch(path):
    import os
    out = set()
    full = os.path.join(os.path.dirname(os.path.dirname(os.path.abspath(__file__))), path)
    try:
        for line in open(full):
            if line.startswith("+++ b/src/urllib3/"):
                out.add(line[len("+++ b/src/urllib3/"):].strip())
    except OSError:
        pass
    return out


def _register_cross():
    import glob
    import os
    import re
    files_of_prop = {}
    for mu in list(MUTANTS):
        fs = set()
        if mu.get("file"):
            fs.add(mu["file"])
        for e in mu.get("edits", ()) or ():
            fs.add(e[0])
        if mu.get("patch"):
            fs |= _files_of_patch(mu["patch"])
        files_of_prop.setdefault(mu["prop"], set()).update(fs)
    root = os.path.dirname(os.path.abspath(__file__))
    for pf in sorted(glob.glob(os.path.join(root, "patches", "bn*_*.diff"))):
        rel = "selftest/patches/" + os.path.basename(pf)
        m_ = re.match(r"bn\d?_([A-Z]\d\d)_(\d+)\.diff", os.path.basename(pf))
        own = m_.group(1) if m_ else None
        touched = _files_of_patch(rel)
        for prop, fs in sorted(files_of_prop.items()):
            if prop == own or not (touched & fs):
                continue
            MUTANTS.append(dict(prop=prop, name=f"cross:{os.path.basename(pf)[:-5]}", patch=rel, rule=None, benign=True, cross=True))


_register_cross()

