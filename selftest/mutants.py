"""Catalogue of checker self-test variants (see sa/selftest.py).

Each entry: name, prop, file (relative to src/urllib3), old, new [, rule] [, benign].
`old` must occur in the file; the first occurrence is replaced.  A variant whose
`old` text is gone (the repository moved on) is reported as inapplicable, not as a miss.
"""

MUTANTS = []


def M(prop, name, file, old, new, rule=None, benign=False, regex=False):
    MUTANTS.append(dict(prop=prop, name=name, file=file, old=old, new=new, rule=rule, benign=benign, regex=regex))


# --------------------------------------------------------------------------- C18
M("C18", "normaliser-drops-server-hostname", "poolmanager.py",
  "    socket_opts = context.get(\"socket_options\")\n",
  "    context.pop(\"server_hostname\", None)\n    socket_opts = context.get(\"socket_options\")\n", rule="C18-R1")
M("C18", "merge-without-copy", "poolmanager.py",
  "base_pool_kwargs = self.connection_pool_kw.copy()", "base_pool_kwargs = self.connection_pool_kw", rule="C18-R3")
M("C18", "pool-from-defaults-key-from-merged", "poolmanager.py",
  "pool = self._new_pool(scheme, host, port, request_context=request_context)",
  "pool = self._new_pool(scheme, host, port)", rule="C18-R2")
M("C18", "headers-frozen-by-name-only", "poolmanager.py",
  "context[key] = frozenset(context[key].items())", "context[key] = frozenset(context[key])", rule="C18-R4")
M("C18", "proxy-config-not-keyed", "poolmanager.py",
  "        connection_pool_kw[\"_proxy_config\"] = self.proxy_config\n", "", rule="C18-R7")
M("C18", "cache-insert-under-other-key", "poolmanager.py",
  "self.pools[pool_key] = pool", "self.pools[pool_key[:3]] = pool", rule="C18-R6")
M("C18", "new-pool-adds-from-defaults", "poolmanager.py",
  "        for key in (\"scheme\", \"host\", \"port\"):\n            request_context.pop(key, None)\n",
  "        for key in (\"scheme\", \"host\", \"port\"):\n            request_context.pop(key, None)\n        request_context.update(self.connection_pool_kw)\n", rule="C18-R2")
M("C18", "benign-rename-context-local", "poolmanager.py",
  "request_context = self._merge_pool_kwargs(pool_kwargs)\n        request_context[\"scheme\"] = scheme or \"http\"",
  "request_context = self._merge_pool_kwargs(pool_kwargs)\n        request_context[\"scheme\"] = (scheme or \"http\")", benign=True)
