"""Per-property claim texts for MANIFEST.json (source of truth; run tools/gen_manifest.py)."""

NOTES = ("Static analysis only: every verdict is computed from the source text of /repo/src/urllib3 "
         "(and, where stated, the running interpreter's http/client.py). Nothing in a check imports or runs urllib3. "
         "Exit 0 holds / 1 VIOLATION / 2 ANALYSIS-ERROR (anchor vanished or idiom not recognised; never reported as a violation). "
         "Known findings are listed in /verif/known_findings.json.")

_TRUST = ("Trusted base: CPython's ast module and the checker code under /verif/sa; CPython, queue, threading, OpenSSL and "
          "http.client behave as documented (A1); extension points at their defaults (A4); no run-time monkey-patching (A5). ")

CLAIMS = {
    "C18": {
        "text": ("Decides the structural clauses of C18 for all keywords and all call paths: every keyword accepted by the pool and "
                 "connection constructors is a PoolKey field, pool-injected, or rejected by the unfiltered key_class(**context); the very "
                 "dict that is keyed is the one the pool is built from (only removals in between); the manager's defaults are never "
                 "mutated or aliased; the normaliser lower-cases scheme/host, freezes mappings by value and drops nothing; SSL keywords "
                 "are HTTPS-only; ProxyManager keys proxy, proxy headers and proxy config. Declined: value-level equality of individual "
                 "field objects (e.g. two equal-looking SSLContexts)."),
        "note": _TRUST + "Def-use is flow-insensitive inside one function; unrecognised shapes are reported as ANALYSIS-ERROR, not as pass.",
        "technique": "static analysis: signature/key-table agreement + intra-function def-use and dict-mutation queries over the AST",
    },
}

_PENDING = "check not built yet in this session (static rules designed in DESIGN.md section 5); will be claimed once its rules run clean"

NOT_APPLICABLE = {pid: _PENDING for pid in
                  ["C01", "C02", "C03", "C04", "C05", "C06", "C07", "C08", "C09", "C10", "C11", "C12", "C13", "C14", "C15", "C16", "C17", "C19", "C20"]}
