"""Per-property claim texts for MANIFEST.json (source of truth; run tools/gen_manifest.py)."""

NOTES = ("Static analysis only: every verdict is computed from the source text of /repo/src/urllib3 "
         "(and, where stated, the running interpreter's http/client.py). Nothing in a check imports or runs urllib3. "
         "Exit 0 holds / 1 VIOLATION / 2 ANALYSIS-ERROR (anchor vanished or idiom not recognised; never reported as a violation). "
         "Known findings are listed in /verif/known_findings.json. "
         "Rules are stated over values and paths (effect rows with Herbrand terms, recorded decisions, value identity), with private helpers "
         "interpreted in place and call spellings canonicalised; 300 independently written behaviour-preserving patches (240 small, 60 substantial) are kept as "
         "must-stay-silent variants and independently seeded breaking changes as must-fire variants (python -m sa.selftest).")

_TRUST = ("Trusted base: CPython's ast module and the checker code under /verif/sa; CPython, queue, threading, OpenSSL and "
          "http.client behave as documented (A1); extension points at their defaults (A4); no run-time monkey-patching (A5). ")

CLAIMS = {
    "C01": {
        "text": ("Decides, for every path of HTTPConnectionPool.urlopen including every exceptional edge out of every call (urllib3 "
                 "exceptions by inferred raise summaries, an 'external' exception class, and an interrupt), with _get_conn/_put_conn and any "
                 "other helper that reaches a queue operation inlined: no slot leak, no placeholder put back without a take, no double give, "
                 "live connections re-enter the queue only after a clean exchange, no use after give, no abandoned socket, refused "
                 "connections are closed, block=True never connects without a slot. On the response side: release_conn gives at most once; "
                 "every stdlib read is inside the error catcher; the catcher translates every low-level root into a urllib3 HTTPError, closes "
                 "before releasing and releases at most once; urlopen hands only urllib3 exceptions to the retry policy; BaseException "
                 "handlers re-raise; pool close drains and closes; HTTPConnection.close clears the socket on every path. "
                 "Every socket urllib3 creates itself (create_connection, the IPv6 probe) is closed on every path on which it is not returned, configuring helpers included (C01-R12). "
                 "Declined: the N-slot invariant over a whole request *sequence* (follows by induction, stated not checked); byte-level socket state."),
        "note": _TRUST + "Interrupts are modelled at call sites (A2); close() used as cleanup does not raise (A3). Three genuine defects found by "
                "these rules are listed as known findings (F1b, F1c, F3); F1a was repaired in /repo.",
        "technique": "static analysis: path-sensitive typestate (lease automaton) by big-step abstract interpretation of the AST with exceptional outcomes, @contextmanager inlining, relevance slicing",
    },
    "C02": {
        "text": ("Decides the ownership / lock discipline that makes concurrent use safe, for all paths: the lease automaton of C01 (no "
                 "lost or duplicated slot, no double give, no use after give, never both queued and owned by a response, block=True never "
                 "connects without a slot); request-path methods write no shared pool state except debug counters and only __init__/close "
                 "write the queue field; a leased connection never escapes into self.*, a container or a closure; every dereference of the "
                 "queue field tolerates a concurrent close() (try/except AttributeError or None-tested snapshot); close() swaps the queue out "
                 "before draining the detached object; the finalizer does not capture the pool; the HTTP/2 probe lock is released exactly "
                 "once on every path out of HTTPSConnection.connect; lock regions hold no blocking pool operation or foreign lock; the "
                 "scheduler is a queue.Queue subclass, takes block iff self.block, puts never block. "
                 "Declined: fairness/eventual completion under all schedules (queue.LifoQueue is trusted), real-time bounds. No lost wake-up at close(): an unbounded wait for a slot must be ended by close() (C02-R10: it is not - F29, known)."),
        "note": _TRUST + "Linearizability of the queue itself is the stdlib's; the check shows nothing else is shared. F1b is a known finding; F2 was repaired.",
        "technique": "static analysis: lease typestate by abstract interpretation + write-set/escape/lockset queries over the AST; swap-then-drain and blocking mode of queue operations on effect rows",
    },
    "C03": {
        "text": ("Decides the structure that keeps exchanges apart on pooled connections: every connection taken from the queue is probed "
                 "and a dropped one closed before reuse (all paths of _get_conn); 'dropped' is exactly socket-gone or readable-now with a "
                 "zero-timeout probe (decision table); a live connection re-enters the queue only after a clean exchange (shared lease "
                 "rule); only _put_conn feeds the queue and only urlopen's finally and release_conn call it; internal release happens only "
                 "once the stdlib response is closed; http.client protocol-state errors take the discard path; HEAD/1xx/204/304 get length 0. "
                 "Declined: byte-level pairing of request and response."),
        "note": _TRUST + "http.client's own request/response state machine is trusted for bytes arriving after checkout.",
        "technique": "static analysis: path-sensitive typestate + decision-table extraction by abstract interpretation, who-may-call queries",
    },
    "C04": {
        "text": ("Decides the structure behind the retry guarantees: no Retry method but __init__ stores to self and no driver stores to a "
                 "policy attribute (caller's object never mutated); on every path each resend (3 in the pool, 1 in the manager) carries a "
                 "policy produced by exactly one increment() after the attempt; new() carries every constructor parameter; "
                 "get_backoff_time returns 0 or max(0, min(backoff_max, e)), Retry-After is clamped at 0 and only those values reach "
                 "time.sleep; is_retry's complete decision table equals allowed and (forced or (total and respect and has and status in "
                 "{413,429,503})); retries=False re-raises before any counter is touched; every branch of increment spends total and its "
                 "own counter (when not None), returns the new object after testing it for exhaustion; a read error is re-raised unless "
                 "read is not False, method known and allowed (both directions); ProtocolError/ReadTimeoutError select the gated read "
                 "branch, consulted before `other`; default allow-list is idempotent; Retry-After honoured only under "
                 "respect_retry_after_header and a response, and (C04-R12) the slept Retry-After must be gated on the statuses it is honoured for - which the tree does not do (F17, known). Declined: counter arithmetic (< vs <=, exact attempt counts)."
                 " Every low-level failure that can follow the sending of request bytes reaches increment(error=...) as a class the policy gates as a read error, or as ProxyError on the proxy arm (C04-R13)."),
        "note": _TRUST + "F11 (proxy classification reads state reset by close()) and F17 (Retry-After slept for any retried status) are known findings; error->category mapping for SSLError after send follows upstream ('other').",
        "technique": "static analysis: provenance tags through abstract interpretation of the request drivers, decision-table extraction on Retry.is_retry/increment, min/max shape algebra, write-set queries",
    },
    "C05": {
        "text": ("Decides which policy is in effect and that following a redirect is charged to it: each Retry.from_int on a request path "
                 "receives the caller's retries and redirect flag and, as default, the policy configured on the serving object "
                 "(self.retries in the pool, the pool's policy in the manager); every resend to a redirect location carries an "
                 "increment(response=...) result and occurs only with the caller's redirect flag true, which is passed on unchanged; the "
                 "manager forces redirect=False and assert_same_host=False into the pool-level call; Retry(redirect=False)/total=False "
                 "give budget 0 and raise_on_redirect False; on status==303 - and only there - the resend is GET, body None, headers "
                 "through _prepare_for_method_change (which drops the content headers); on exhaustion MaxRetryError is re-raised only "
                 "under raise_on_*, after drain_conn(), else the response is returned; the manager resends to urljoin(url, location); "
                 "REDIRECT_STATUSES is {301,302,303,307,308}. Declined: counting redirects against the numeric budget."
                 " Every resend - redirect or retry - is made under the caller's redirect and assert_same_host flags."),
        "note": _TRUST + "F4 (manager ignored constructor-level retries) was repaired in /repo.",
        "technique": "static analysis: sibling cross-check of both urlopen drivers by abstract interpretation with provenance tags and recorded decisions",
    },
    "C06": {
        "text": ("Decides that the credential strip dominates every cross-origin resend of PoolManager.urlopen: when the removal set is "
                 "non-empty the origin of the very target that is resent to is tested against the serving pool; when that test is false the "
                 "headers passed on are a copy from which each header whose lower-cased name is in the set was removed (loop over all "
                 "outgoing headers, no early exit), other headers kept, and that copy is the slot splatted into the resend; the policy's "
                 "set is lower-cased at construction and only set there; defaults contain Authorization, Cookie, Proxy-Authorization; "
                 "is_same_host compares (scheme, host, port) from parse_url(url) with the pool's, host through the same normaliser, "
                 "default ports explicit; in the pool every request step is preceded by `not assert_same_host or is_same_host(url)` and "
                 "resends forward assert_same_host unchanged. Declined: header values; correctness of parse_url's host (C14)."),
        "note": _TRUST,
        "technique": "static analysis: sanitizer-dominates-sink by abstract interpretation with provenance tags; read-set of the origin comparison",
    },
    "C07": {
        "text": ("Decides who verifies what, for every configuration cell: the complete decision table of "
                 "_ssl_wrap_socket_and_match_hostname over cert_reqs x fingerprint x assert_hostname x caller context x backend flags "
                 "(288 cells, create_urllib3_context/resolve_cert_reqs interpreted in place): verify_mode is the resolved cert_reqs "
                 "(default REQUIRED); a pinned fingerprint is checked against the configured pin; otherwise, unless assert_hostname=False "
                 "or CERT_NONE, the hostname is checked by OpenSSL (check_hostname at wrap with a server name) or by _match_hostname with "
                 "assert_hostname-else-server-name; is_verified <=> REQUIRED or fingerprint; every failed check closes the wrapped socket "
                 "and propagates. Around it: _validate_conn precedes conn.request on every path of _make_request and connects a closed "
                 "connection; only _make_request sends on pooled connections; on every normal exit of HTTPSConnection.connect self.sock is "
                 "the verified socket and is_verified its verdict (False via forwarding proxy); the server name is tunnel host / host / "
                 "configured override, dot-stripped, and all TLS settings handed over are the connection's own; nothing but a verification "
                 "result is stored into is_verified/proxy_is_verified; unverified => InsecureRequestWarning; pyOpenSSL callback returns "
                 "err_no == 0; a hostname mismatch re-raises. Declined: the handshake and chain validation (OpenSSL), string forms of cert_reqs."
                 " The OS default trust store is added only when no CA was configured and the context is urllib3's own (C07-R11); which subject-name kinds may satisfy which kind of host is shared from C08-R4."),
        "note": _TRUST + "ssl.SSLContext(PROTOCOL_TLS_CLIENT) defaults (check_hostname on, CERT_REQUIRED) are taken from the documentation.",
        "technique": "static analysis: decision-table extraction over a finite input partition by abstract interpretation; event-order typestate; provenance tags",
    },
    "C08": {
        "text": ("Ties each rule of the statement to a structural fact of the matcher: the DNS pattern is \\A + labels joined by an escaped "
                 "dot + \\Z, IGNORECASE, applied to the whole hostname; only the left-most label can be non-literal; the whole-label "
                 "wildcard is a repeat (min 1) of a class excluding '.', a partial wildcard's class excludes '.'; all other labels go through "
                 "re.escape; more than max_wildcards (=1) in the left-most label raises before a pattern is built; xn-- on either side "
                 "disables expansion inside the label; in match_hostname the DNS matcher is consulted only for non-IP hosts under key DNS, "
                 "the IP matcher only for IP hosts under key 'IP Address', commonName only when enabled, non-IP and no SAN seen; success "
                 "only after a matcher returned true, otherwise CertificateError; IPs compared by packed value with zone id cut; brackets "
                 "stripped only for IP literals; the fingerprint is normalised before its length selects md5/sha1/sha256 (32/40/64 = 2 x "
                 "digest size), other lengths raise, hmac.compare_digest of digest vs un-hexed pin, inequality raises. A SAN entry the matcher refuses must not end the walk before later entries were examined (C08-R8: it does - F20, known). "
                 "Declined: acceptance over the whole language of names (needs running the matcher)."),
        "note": _TRUST + "hashlib digest sizes are read from the platform. F20 (a refused SAN entry hides the entries after it: order-dependent verdict) is a known finding.",
        "technique": "static analysis: regex structure analysis of folded pattern fragments, decision-table extraction on match_hostname, def-use on assert_fingerprint",
    },
    "C09": {
        "text": ("Decides the routing structure: the complete decision table of connection_requires_http_tunnel equals proxy and scheme "
                 "!= http and not (https proxy and config and forwarding), forwarding being opt-in; the three call sites evaluate it with "
                 "the configured proxy, its config and this request's parsed scheme; proxy headers are merged into request headers only on "
                 "paths where no tunnel is required and otherwise flow only to set_tunnel(headers=...) and the pool key; with a tunnel "
                 "required and the connection closed, _prepare_proxy (set_tunnel then connect) precedes the request on every path, the "
                 "closed test is consulted on every tunnel path, and close() clears the tunnel fields; inside HTTPSConnection.connect the "
                 "order is proxy TLS (https proxy) -> _tunnel() -> origin wrap, tls_in_tls exactly on the https arm, proxy TLS verified "
                 "against the proxy's host with the proxy_config assertions; HTTPS pools dial the proxy; CONNECT targets the "
                 "bracket-preserving _tunnel_host and the pool's port; the manager passes the absolute URL iff proxy without tunnel, else "
                 "request_uri. Declined: bytes received by proxy and origin."
                 " Inside a tunnel the origin handshake is verified with the connection's own assertions, never the proxy's; set_tunnel does not rewrite the recorded CONNECT target. A failed CONNECT exchange must count as a proxy failure whatever the proxy answered (C09-R13; found F26a/b - a garbage or empty reply was raised as ProtocolError - repaired)."),
        "note": _TRUST + "http.client's _tunnel()/set_tunnel are trusted for the CONNECT exchange itself. F11 (C04-R8, shared) is a known finding.",
        "technique": "static analysis: decision-table extraction, taint/provenance through abstract interpretation of the drivers, event-order typestate in connect()",
    },
    "C10": {
        "text": ("Decides that every caller string reaches the socket only through a validator or an encoder whose accepted language "
                 "excludes the separators: putrequest searches the whole method for a character outside a negated class whose complement "
                 "is within RFC 7230 token characters (no CTL, SP, colon, non-ASCII) and raises before delegating (method, url) to the "
                 "stdlib putrequest, which validates method and path (read from http/client.py); every target handed to _make_request "
                 "is _encode_target(url) or parse_url(url).url, the encoder's allowed sets fold to RFC 3986 characters (no SP/CR/LF/#/%) "
                 "and it keeps a raw byte only if allowed ASCII or a '%' of a fully percent-encoded component, else writes %XX; "
                 "_TARGET_RE drops the fragment; request() produces output only through putrequest/putheader/endheaders/send, passes every "
                 "caller header through putheader whose override delegates all non-sentinel values to the validating stdlib putheader; no "
                 "raw socket write exists in live connection.py code and body bytes follow endheaders(); Host/Accept-Encoding are "
                 "suppressed and User-Agent added by case-insensitive presence; SKIP_HEADER elsewhere raises; HTTP/2 name pattern is "
                 "lower-case tchar anchored with \\Z, value pattern rejects NUL/CR/LF anywhere and edge SP/HTAB, both before the append. "
                 "Declined: byte-level equality of the written request. The URL host cannot carry CR/LF/NUL/SP into the CONNECT line of a tunnelling proxy: the host grammar admits them, so set_tunnel must search a pattern covering them (C10-R8; found F27, repaired)."),
        "note": _TRUST + "http.client's own validators are trusted as read from its source on every run. F9 was repaired.",
        "technique": "static analysis: regex structure analysis of folded patterns, constant folding of character sets, sanitizer-on-every-flow provenance on effect rows (checked term is the emitted term), who-writes-to-socket query",
    },
    "C11": {
        "text": ("Decides framing choice and resend threading structurally: the complete framing decision table of "
                 "HTTPConnection.request (chunked flag x caller CL/TE x body shape) - caller framing respected, otherwise exactly one of "
                 "Content-Length/Transfer-Encoding, none for body-less no-body methods, CL 0 otherwise, send mode and single terminator "
                 "following the framing; Content-Length is str(content_length) of body_to_chunks; chunk frames are (len(x), x) of one "
                 "object, empty chunks skipped, str encoded before measuring; body_to_chunks per body kind measures the very object it "
                 "sends; every pool-level resend carries the caller's body and the position recorded by set_file_position before the "
                 "first attempt, and a body-less (303) resend carries no position; rewind_body seeks or raises UnrewindableBodyError, "
                 "_FAILEDTELL always raises it. Declined: payload byte equality. The size line of a chunk counts bytes: len() is taken of bytes or of a byte view of the chunk, never of a buffer with wide items (C11-R2; found F28, repaired)."),
        "note": _TRUST + "Known findings: F5 (manager-level resend has no body_pos), F6a/F6b (bodies without tell() / iterators are re-sent empty). F13 (303 + seekable body raised ValueError) was found by these rules' development and repaired in /repo.",
        "technique": "static analysis: decision-table extraction on request()/body_to_chunks/rewind_body, provenance tags at resend sites, sibling cross-check of classifiers",
    },
    "C12": {
        "text": ("Decides necessary structural conditions only: on every path of read/read1 that delivers freshly decoded bytes the "
                 "decoded-byte queue is known empty, otherwise bytes are delivered from the queue after the new bytes were put (single "
                 "ordered route); every yield in stream/read_chunked is guarded by the truthiness of what it yields; a zstandard "
                 "decompressobj is never fed when it may be at eof and a gzip decoder starts a new decompressobj before feeding "
                 "unused_data; MultiDecoder undoes codings in reverse header order and its flush() walks every decoder in that order, feeding each flush to the next (F23, repaired); each optional "
                 "codec is advertised, constructed and error-mapped under one guard; flush_decoder is true exactly for read-all or a "
                 "sized read that returned no data - decided for every decode call of read, including the refill reads of one call: bytes that may be empty are never decoded under a definitely-false flag, and the end of the body is not reported before a decoder that was fed is flushed (C12-R6; found F19 and F24, both repaired); stream() loops until the stdlib response is closed and the queue is empty; "
                 "readinto/iteration/.data go through the same readers. Declined (most of the statement): equality of concatenations over "
                 "arbitrary call sequences, the read(n) size contract, segmentation independence."
                 " A sized take from the decoded-byte queue always follows a put or a size test (C12-R10); the raw reader never closes the stdlib response early with a piece in hand (C13-R1, shared). The position inside a chunked body has one owner (C12-R11: it has two - F25, known)."),
        "note": _TRUST + "zlib/zstandard decompressobj API typestate is a small frozen table (single-use after eof for zstd; unused_data for zlib). F7b (read_chunked yields past the queue) is a known finding; F7 (read) and F8 (zstd frame boundary) were repaired.",
        "technique": "static analysis: provenance typestate of delivered bytes by abstract interpretation, API-typestate of decoder objects with object-invariant entry state, structural queries",
    },
    "C13": {
        "text": ("Decides that every end-of-stream branch with bytes outstanding raises: the decision table of _raw_read shows (no data, "
                 "amt != 0, enforcement on, length_remaining neither None nor 0) => IncompleteRead (translated to ProtocolError by the "
                 "catcher) with the stdlib response closed first, except read() without amount where http.client raises it itself (read "
                 "from its source); an unparsable chunk-size line closes and raises InvalidChunkLength/ProtocolError, the size is "
                 "int(line-before-';', 16), an empty line is not zero, the chunk loop ends only at chunk_left == 0; chunk payloads and "
                 "CRLFs are read only via _safe_read; _decode wraps DECODER_ERROR_CLASSES (zlib.error, OSError + enabled codecs) into "
                 "DecodeError, an incomplete zstd frame raises at flush, only trailing gzip garbage after a full member is ignored; "
                 "conflicting Content-Length raises InvalidHeader (not a ValueError), chunked ignores length; unclean exits close the "
                 "connection (shared C01-R5/R6); preload and .data use read(); enforce_content_length defaults to True and is forwarded "
                 "at every hop; the flush flag of every decode in read(amt) belongs to the bytes it accompanies and read() does not report the end of the body before a decoder fed by earlier calls was flushed (C12-R6 shared: F19, F24, repaired); flush() of a stacked coding reaches every layer (C12-R4 shared: F23, repaired); a chunk-size line must be checked to be hex digits before int() - in urllib3's chunk reader and in http.client's (C13-R10: neither does - F22a, F22b, known). Declined: enumeration over every cut position."
                 " The raw reader itself never ends a good body early, and an early release never recycles the connection of an unfinished body (C03-R8, shared)."),
        "note": _TRUST + "http.client's _safe_read raising IncompleteRead is read from its source. F12 (read1 without amount), F19 (refill read never flushed the decoder), F23 (MultiDecoder.flush reached one layer) and F24 (end of body reported before the flush) were repaired in /repo; F22a/F22b (chunk-size lines accepted by int(x, 16) alone) are known findings, F22b in the standard library.",
        "technique": "static analysis: decision-table extraction on _raw_read, exceptional-path typestate on the chunk parser, handler/lattice queries",
    },
    "C14": {
        "text": ("Decides the structural clauses: everything parse_url does with the input sits inside one try whose handler turns "
                 "ValueError/AttributeError into LocationParseError, the calls outside it are compiled-pattern searches and namedtuple "
                 "construction, and every explicit raise in the reachable helpers is LocationParseError or a caught class (IDNA errors "
                 "are converted); the authority group of _URI_RE is a class excluding exactly # / ? and backslash, the pattern anchored "
                 "and DOTALL, groups unpacked in order; userinfo ends at the last '@' (rpartition); every _normalize_host return for "
                 "http/https is lower-cased or guarded by a digits-and-dots pattern, schemes lowered in parse_url and Url(); the port "
                 "reaches the result only after the 0..65535 test and its group admits at most five significant digits; none of the 13 "
                 "compiled patterns has a super-linear backtracking shape; loops over the input contain no quadratic idiom. "
                 "What the patterns accept as a percent-escape is '%' plus two ASCII hex digits (C14-R8); a '%' that is re-encoded must have been examined at its own position (C14-R9: the tree decides on the whole component only - F18, known). "
                 "Declined: idempotence/re-parse equality, percent-encoding normal form, agreement with a reference parser on every string."),
        "note": _TRUST + "TypeError raised by to_str on non-str input is outside the quantifier (strings). F18 (a valid escape next to a stray '%' is encoded again) is a known finding.",
        "technique": "static analysis: regex structure and backtracking-shape analysis on folded patterns, exception-funnel check over the call closure, must-pass-through def-use",
    },
    "C15": {
        "text": ("Decides provenance: the pool (hence the address dialled) is selected by host, port and scheme of the one parse_url(url) "
                 "result; absent ports default from port_by_scheme before keying; pools/connections are built for their own host and port; "
                 "Url.request_uri reads only path and query ('/' when empty) and the absolute-form target drops auth and fragment; the "
                 "dialled name is _dns_host while Host/SNI use it without trailing dot; the TLS server name loses brackets/zone id only for "
                 "IP literals; the pool's host is bracket-stripped while CONNECT keeps brackets; scheme/host are lower-cased by parser and "
                 "key normaliser; through a forwarding proxy the request carries the Host derived from its own URL and that derived Host cannot ride along to the request for another URL (C15-R8: it can - F16, known); the default port replaces only an absent port (C15-R1: it also replaces port 0 - F21, known). Declined: byte-identical requests; the Host line http.client writes by itself."),
        "note": _TRUST + "F10 (userinfo and fragment in the absolute-form target) was repaired in /repo; F16 (stale Host after a redirect through a forwarding proxy) and F21 (port 0 dialled as the default port) are known findings.",
        "technique": "static analysis: provenance tags through abstract interpretation of the drivers, read-set of Url views, def-use queries",
    },
    "C16": {
        "text": ("Decides, method by method, that HTTPHeaderDict's effect table equals the reference multimap's - for every decision row of "
                 "every method, over a symbolic storage: item assignment stores exactly [name, value] under the lower-cased name (bytes names "
                 "decoded, str names untouched); lookup returns the values joined by ', ' and changes nothing; deletion removes exactly the "
                 "entry; membership is the lower-cased storage test for str and False otherwise; add() stores a fresh [name, value] for a new "
                 "name, appends after the other values for an existing one (first-seen spelling kept) or - combine=True - joins to the LAST "
                 "value, and combine defaults to False; extend() inserts every pair of each accepted source kind (header dict line by line, "
                 "mapping items, iterable of pairs, keys()+[] duck typing) and then the keywords through add() without combine, in source "
                 "order, refuses a second positional source and never reads a source that was not given; iteration yields the first-seen "
                 "spelling per entry in storage order, iteritems one (spelling, value) per value line, itermerged the joined values, getlist a "
                 "fresh slice or []/default; the item view iterates, measures and tests membership line by line; _copy_from stores a fresh "
                 "[name, *values] per name, copy() is a new instance filled from self, | / reflected | / |= are copy-then-extend, "
                 "new(other)-then-extend(self) and in-place extend, with NotImplemented for unreadable operands; discard swallows only "
                 "KeyError; pop/popitem/update/clear/get stay the MutableMapping mix-ins built on these. Also the storage discipline: "
                 "lower-cased keys at every storage access, no stored list shared between instances or handed out. Since each method is "
                 "specified in terms of the other methods' specifications, equivalence with the reference multimap over operation "
                 "SEQUENCES follows by induction on call depth and sequence length (stated, not checked). "
                 "Declined: __eq__'s value-level comparison of the two merged views, __repr__, and the induction step itself."),
        "note": _TRUST + "Terms are Herbrand terms over known pure operations (str/list methods, slicing, join, concatenation); a method body using an operation outside that "
                "vocabulary is reported as ANALYSIS-ERROR (exit 2), never as a violation. The storage invariant `every entry is [spelling, value, ...]` (len >= 2) is "
                "established by the store rules and assumed when an assert consults it.",
        "technique": "static analysis: effect-table extraction by abstract interpretation with Herbrand terms (symbolic value numbering, no solver) over a symbolic storage, compared row by row with the reference multimap; plus def-use / escape queries",
    },
    "C17": {
        "text": ("Decides the lock and disposal discipline of the LRU container and of get-or-create, on every path: each access to the "
                 "mapping is inside the instance lock (re-entrant); the dispose callback is never invoked under the lock; every value taken "
                 "out (replaced, evicted, deleted, cleared) is disposed exactly once when a callback is set and never otherwise; a new key "
                 "always evaluates len > maxsize after insertion and evicts with popitem(last=False) in the same region; a lookup pops and "
                 "re-inserts in one region and returns that value; lookup, creation and insertion of a pool share one region of the "
                 "container lock and a hit returns the cached object; the manager installs no dispose callback, never calls close() on a "
                 "pool, sizes the container with num_pools; pools close themselves via weakref.finalize. "
                 "Declined: linearizability as such (follows from the single-lock discipline), garbage-collector timing."),
        "note": _TRUST + "OrderedDict and RLock semantics are taken from their documentation (small frozen model of pop/popitem/clear/values).",
        "technique": "static analysis: lockset + typestate (removed => disposed once) by abstract interpretation of the container methods",
    },
    "C18": {
        "text": ("Decides the structural clauses of C18 for all keywords and all call paths: every keyword accepted by the pool and "
                 "connection constructors is a PoolKey field, pool-injected, or rejected by the unfiltered key_class(**context); the very "
                 "dict that is keyed is the one the pool is built from (only removals in between); the manager's defaults are never "
                 "mutated or aliased; the normaliser lower-cases scheme/host, freezes mappings by value and drops nothing; SSL keywords "
                 "are HTTPS-only; ProxyManager keys proxy, proxy headers and proxy config. Declined: value-level equality of individual "
                 "field objects (e.g. two equal-looking SSLContexts)."),
        "note": _TRUST + "Def-use is flow-insensitive inside one function; unrecognised shapes are reported as ANALYSIS-ERROR, not as pass.",
        "technique": "static analysis: signature/key-table agreement + intra-function def-use and dict-mutation queries over the AST",
    },
    "C19": {
        "text": ("Decides the structure around the clock: every Timeout returned by _get_timeout is a clone()/from_float() result, "
                 "clone() rebuilds from the three values and a new Timeout has no start stamp (only start_connect sets it); the three "
                 "fields are stored only through _validate_timeout, whose decision table rejects bool before the numeric tests, "
                 "non-numbers and value <= 0, passing None/default through; connect_timeout returns connect, total or min(connect, total) "
                 "under the documented guards; read_timeout with a total is max(0, min(total - elapsed, read)) / max(0, total - elapsed); "
                 "in _make_request the clock is started, then the connect timeout applied, then validation/connect and request, the read "
                 "timeout (last computation) follows the request, a zero budget raises ReadTimeoutError without waiting and the read "
                 "timeout is applied before getresponse(); request()/getresponse() call settimeout(self.timeout) first; the pool's "
                 "timeout is used only for the default sentinel; socket.timeout and EAGAIN/EWOULDBLOCK map to ReadTimeoutError. "
                 "All of it is decided on effect rows (decisions on symbolic atoms + returned term / ordered events), so temporaries, "
                 "reordered independent tests, `a if a < b else b` in place of min(), merged raises and helper extraction do not matter. "
                 "Declined: arithmetic over elapsed time. An accepted timeout value has passed a test NaN fails (C19-R2; found F30, repaired)."),
        "note": _TRUST + "F14 (tunnel set-up time through a CONNECT proxy is not deducted from total) is a known finding confirmed against the real code.",
        "technique": "static analysis: effect-row / decision-table extraction with Herbrand terms (min/max normal form, comparisons as row constraints) on the Timeout helpers, event-order typestate on _make_request / request / getresponse with helper inlining",
    },
    "C20": {
        "text": ("Decides the structural soundness of the multipart encoder for all field contents: field name and filename reach a "
                 "header only through _render_parts -> _render_part -> the header formatter (default format_multipart_header_param); its "
                 "translation table maps CR, LF and the double quote to %0D, %0A, %22, re-introduces none of them, and the result is "
                 "name=\"<escaped>\"; every part is written as delimiter line, rendered headers, data, CRLF on every path, followed by "
                 "exactly one closing delimiter; str data goes through the UTF-8 writer and bytes are written raw; the header block ends "
                 "with an empty line; one boundary definition reaches every delimiter and the returned content type; request_encode_body "
                 "sends that body with that content type. Declined: parsing the output back (byte-level round trip)."
                 " Each part owns a fresh header mapping (C20-R6) and a Mapping of fields is always read pair by pair (C20-R7)."),
        "note": _TRUST + "Custom header_formatter callables supplied by the caller are outside the claim (deprecated extension point).",
        "technique": "static analysis: sanitizer-on-every-flow def-use, folded escape table, event-order typestate over the encoder loop",
    },
}

_PENDING = "check not built yet in this session (static rules designed in DESIGN.md section 5); will be claimed once its rules run clean"

NOT_APPLICABLE = {}
