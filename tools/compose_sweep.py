"""Detection under refactoring: every seeded breaking change applied ON TOP of every stored behaviour-preserving patch it still
applies to (same file, hunks not overlapping), checked under the seed's own property.  The composed tree breaks the property, so the
check must exit 1 (or print the seed's finding); exit 0 is a miss caused by the refactor, exit 2 an analysis that lost its anchor.
usage: /venv/bin/python tools/compose_sweep.py [--jobs N] [--out FILE] [--benign GLOB] [--seeds GLOB]"""
import concurrent.futures as cf
import glob
import json
import os
import re
import shutil
import subprocess
import sys
import tempfile

V = os.path.dirname(os.path.dirname(os.path.abspath(__file__)))


def files_of(patch):
    out = set()
    for l in open(patch, errors="replace"):
        m = re.match(r"^\+\+\+ b/(\S+)", l)
        if m:
            out.add(m.group(1))
    return out


def work(job):
    bpf, seed_dir, prop = job
    spf = os.path.join(seed_dir, "patch.diff")
    tmp = tempfile.mkdtemp(prefix="cs_", dir="/tmp")
    try:
        shutil.copytree("/repo/src", f"{tmp}/src")
        subprocess.run(["git", "init", "-q", "."], cwd=tmp, check=True)
        for pf in (bpf, spf):
            r = subprocess.run(["git", "apply", "--whitespace=nowarn", pf], cwd=tmp, capture_output=True, text=True)
            if r.returncode != 0:
                return (os.path.basename(bpf), os.path.basename(seed_dir), prop, "n/a", "")
        env = dict(os.environ, VERIF_REPO=tmp, VERIF_EVIDENCE_DIR=f"{tmp}/ev")
        o = subprocess.run(["/venv/bin/python", "-m", "sa.check", prop], cwd=V, env=env, capture_output=True, text=True)
        lines = [l.strip() for l in (o.stdout + o.stderr).splitlines() if " fails " in l or "ANALYSIS-ERROR" in l]
        return (os.path.basename(bpf), os.path.basename(seed_dir), prop, o.returncode, " | ".join(lines[:2])[:300])
    finally:
        shutil.rmtree(tmp, ignore_errors=True)


def main():
    jobs, out = 14, "compose.jsonl"
    bglob, sglob = f"{V}/selftest/patches/bn*_*.diff", f"{V}/seeded/*"
    a = sys.argv[1:]
    i = 0
    while i < len(a):
        if a[i] == "--jobs":
            jobs = int(a[i + 1])
        elif a[i] == "--out":
            out = a[i + 1]
        elif a[i] == "--benign":
            bglob = a[i + 1]
        elif a[i] == "--seeds":
            sglob = a[i + 1]
        i += 2
    benign = sorted(os.path.abspath(f) for f in glob.glob(bglob))
    seeds = []
    for d in sorted(glob.glob(sglob)):
        mf, pf = os.path.join(d, "meta.json"), os.path.join(d, "patch.diff")
        if os.path.exists(mf) and os.path.exists(pf):
            prop = json.load(open(mf)).get("property")
            if prop:
                seeds.append((os.path.abspath(d), prop, files_of(pf)))
    bfiles = {b: files_of(b) for b in benign}
    todo = [(b, d, p) for d, p, sf in seeds for b in benign if sf & bfiles[b]]
    print(f"{len(seeds)} seeds x {len(benign)} benign patches: {len(todo)} same-file pairs", flush=True)
    n = {"fired": 0, "missed": 0, "error": 0, "n/a": 0}
    with cf.ProcessPoolExecutor(max_workers=jobs) as ex, open(out, "w") as fh:
        for res in ex.map(work, todo, chunksize=4):
            rc = res[3]
            kind = "n/a" if rc == "n/a" else ("fired" if rc == 1 else ("missed" if rc == 0 else "error"))
            n[kind] += 1
            if kind != "n/a":
                fh.write(json.dumps(res) + "\n")
                fh.flush()
            if kind in ("missed", "error"):
                print(kind.upper(), *res, flush=True)
    print(json.dumps(n), flush=True)


if __name__ == "__main__":
    main()
