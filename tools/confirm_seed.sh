#!/bin/bash
# usage: confirm_seed.sh <PROP> <name> [worktree]   (worktree default /tmp/seed_<PROP>, with the change applied in its working tree and demo_<PROP>.py)
# Confirms: demo PASS on original, FAIL on changed; pinned suite's stable tests still pass with the change. Writes /verif/seeded/<PROP>-<name>/
# (no git stash: the stash is shared between worktrees)
set -u
P=$1; NAME=$2; WT=${3:-/tmp/seed_$P}; OUT=/verif/seeded/$P-$NAME
mkdir -p $OUT
cd $WT || exit 2
[ -f src/urllib3/_version.py ] || cp /repo/src/urllib3/_version.py src/urllib3/_version.py
git diff -- src > $OUT/patch.diff
[ -s $OUT/patch.diff ] || { echo "no diff"; exit 2; }
cp demo_$P.py $OUT/demo.py
git apply -R $OUT/patch.diff || { echo "cannot revert"; exit 2; }
PYTHONPATH=$WT/src timeout 300 /venv/bin/python demo_$P.py > $OUT/demo_original.log 2>&1; o=$?
git apply $OUT/patch.diff || { echo "cannot re-apply"; exit 2; }
PYTHONPATH=$WT/src timeout 300 /venv/bin/python demo_$P.py > $OUT/demo_changed.log 2>&1; c=$?
echo "demo original exit=$o changed exit=$c"
X=/tmp/confirm_${P}_$NAME.xml
PYTHONPATH=$WT/src timeout 1500 /venv/bin/python -m pytest -ra -q -p no:cacheprovider --timeout=900 --continue-on-collection-errors --junitxml=$X > /tmp/confirm_${P}_$NAME.suite.log 2>&1
s=$(/venv/bin/python /verif/tools/junit_vs_baseline.py $X)
echo "$s"
echo "{\"demo_original_exit\": $o, \"demo_changed_exit\": $c, \"suite\": \"$(echo $s | sed 's/"/\\"/g')\"}" > $OUT/confirm.json
rm -f $X
