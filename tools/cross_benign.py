"""Run every stored behaviour-preserving patch under EVERY property's quick check (not only its own).
usage: /venv/bin/python tools/cross_benign.py [--jobs N] [--out FILE] [patch-glob]
Every non-zero exit is a false alarm of the machinery."""
import concurrent.futures as cf
import glob
import json
import os
import shutil
import subprocess
import sys
import tempfile

V = os.path.dirname(os.path.dirname(os.path.abspath(__file__)))
PROPS = [f"C{i:02d}" for i in range(1, 21)]


def work(pf):
    tmp = tempfile.mkdtemp(prefix="xb_", dir="/tmp")
    res = []
    try:
        shutil.copytree("/repo/src", f"{tmp}/src")
        subprocess.run(["git", "init", "-q", "."], cwd=tmp, check=True)
        r = subprocess.run(["git", "apply", "--whitespace=nowarn", pf], cwd=tmp, capture_output=True, text=True)
        if r.returncode != 0:
            return [(os.path.basename(pf), "*", "does-not-apply", r.stderr[:200])]
        for p in PROPS:
            env = dict(os.environ, VERIF_REPO=tmp, VERIF_EVIDENCE_DIR=f"{tmp}/ev")
            o = subprocess.run(["/venv/bin/python", "-m", "sa.check", p], cwd=V, env=env, capture_output=True, text=True)
            if o.returncode != 0:
                lines = [l.strip() for l in (o.stdout + o.stderr).splitlines() if " fails " in l or "ANALYSIS-ERROR" in l]
                res.append((os.path.basename(pf), p, o.returncode, " | ".join(lines[:3])[:500]))
    finally:
        shutil.rmtree(tmp, ignore_errors=True)
    return res


def main():
    jobs = 14
    out = "/tmp/cross_benign.jsonl"
    args = sys.argv[1:]
    pats = []
    i = 0
    while i < len(args):
        if args[i] == "--jobs":
            jobs = int(args[i + 1]); i += 2
        elif args[i] == "--out":
            out = args[i + 1]; i += 2
        else:
            pats.append(args[i]); i += 1
    files = sorted(os.path.abspath(f) for f in sum((glob.glob(p) for p in (pats or [f"{V}/selftest/patches/bn*_*.diff"])), []))
    n = 0
    with cf.ProcessPoolExecutor(max_workers=jobs) as ex, open(out, "w") as fh:
        for res in ex.map(work, files):
            n += 1
            for r in res:
                fh.write(json.dumps(r) + "\n")
                fh.flush()
                print("ALARM", *r, flush=True)
    print(f"{n} patches x {len(PROPS)} checks done", flush=True)


if __name__ == "__main__":
    main()
