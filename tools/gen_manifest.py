#!/venv/bin/python
"""Regenerate /verif/MANIFEST.json from tools/claims.py and validate it against the schema."""
import json
import os
import sys

HERE = os.path.dirname(os.path.abspath(__file__))
VERIF = os.path.dirname(HERE)
sys.path.insert(0, HERE)
import claims  # noqa: E402

BASE_CMD = "cd /repo && /venv/bin/python -m pytest -ra -q -p no:cacheprovider --timeout=900 --continue-on-collection-errors"

props = [json.loads(l)["id"] for l in open(os.path.join(VERIF, "properties.jsonl"))]
checks = []
for pid in props:
    c = claims.CLAIMS.get(pid)
    if not c:
        continue
    checks.append({
        "property_id": pid,
        "quick_cmd": f"/venv/bin/python -m sa.check {pid} --tier quick",
        "thorough_cmd": f"/venv/bin/python -m sa.check {pid} --tier thorough",
        "evidence_file": f"/verif/evidence/{pid}.json",
        "replay_cmd_template": "/venv/bin/python -m sa.check --replay {path}",
        "engine": "sa",
        "level_claimed": {"category": "other", "text": c["text"], "design_ref": f"DESIGN.md section 5, {pid}"},
        "level_note": c["note"],
        "technique": c["technique"],
    })
na = [{"property_id": pid, "reason": claims.NOT_APPLICABLE[pid]} for pid in props if pid not in claims.CLAIMS]
missing = [pid for pid in props if pid not in claims.CLAIMS and pid not in claims.NOT_APPLICABLE]
assert not missing, missing
manifest = {
    "version": 1,
    "setup_cmd": "/venv/bin/python -m compileall -q /verif/sa /verif/selftest >/dev/null && echo setup-ok",
    "hooks": {
        "guard": "URLLIB3_VERIF_HOOKS",
        "enable": "none needed: static analysis reads /repo's source; no instrumentation was added to urllib3",
        "baseline_off_cmd": BASE_CMD,
        "source_commits": [],
        "add_only": True,
    },
    "engines": [{
        "name": "sa",
        "path": "/verif/sa",
        "serves_properties": [c["property_id"] for c in checks],
        "kind_free_text": "repository-specific static analysis: ast program model, constant folder, big-step abstract interpreter with exceptional outcomes / typestate / decision tables, regex structure analysis, syntactic def-use, lockset and who-may-call queries",
    }],
    "checks": checks,
    "not_applicable": na,
    "notes": claims.NOTES,
}
with open(os.path.join(VERIF, "MANIFEST.json"), "w") as fh:
    json.dump(manifest, fh, indent=1)
try:
    import jsonschema
    jsonschema.validate(manifest, json.load(open("/root/.vp/MANIFEST.schema.json")))
    print("MANIFEST.json valid;", len(checks), "checks,", len(na), "not applicable")
except ImportError:
    print("MANIFEST.json written (jsonschema not importable here; validate with python3-vt)")
