#!/venv/bin/python
"""Behaviour-preserving refactor: copies <repo>/src to <dst>/src and inserts `assert True` as the first statement of every
function (after the docstring) and after every `try:` body's first statement... (kept simple: function starts only)."""
import ast, os, shutil, sys
repo = os.environ.get("VERIF_REPO", "/repo")
dst = sys.argv[1]
shutil.rmtree(dst, ignore_errors=True)
shutil.copytree(os.path.join(repo, "src"), os.path.join(dst, "src"), ignore=shutil.ignore_patterns("__pycache__"))
n = 0
for dp, dn, fn in os.walk(os.path.join(dst, "src")):
    for f in fn:
        if not f.endswith(".py"):
            continue
        p = os.path.join(dp, f)
        tree = ast.parse(open(p).read())
        for node in ast.walk(tree):
            if isinstance(node, (ast.FunctionDef, ast.AsyncFunctionDef)):
                i = 1 if node.body and isinstance(node.body[0], ast.Expr) and isinstance(node.body[0].value, ast.Constant) and isinstance(node.body[0].value.value, str) else 0
                if len(node.body) > i or i == 0:
                    node.body.insert(i, ast.Assert(test=ast.Constant(True), msg=None))
                    n += 1
        ast.fix_missing_locations(tree)
        out = ast.unparse(tree)
        compile(out, p, "exec")
        open(p, "w").write(out + "\n")
print("inserted", n, "no-ops in", dst)
