import json, sys, xml.etree.ElementTree as ET
base = set(json.load(open("/root/.vp/BASELINE.json"))["stable_pass"])
for f in sys.argv[1:]:
    t = ET.parse(f)
    passed = set()
    for tc in t.iter("testcase"):
        if not any(c.tag in ("failure", "error", "skipped") for c in tc):
            passed.add(f"{tc.get('classname')}::{tc.get('name')}")
    missing = sorted(x for x in base if x != "::" and x not in passed)
    print(f, "passed", len(passed), "stable missing", len(missing), missing[:5])
