"""Systematic mutation sweep over the functions the properties are anchored in (development tool, not a check).

For every property, the anchored line ranges (properties.jsonl, which refer to the tree as received = commit BASE)
are mapped to their enclosing functions; every function is then mutated in the *current* tree with a fixed operator
set (negate a test, drop an operand of and/or, flip a comparison, delete a statement, swap a constant, drop
.lower()/.copy(), min<->max, break<->continue, ...).  Each mutant that still compiles is written to a scratch copy of
<repo>/src and the quick checks of the properties anchoring that function are run against it.

  killed    some check exits 1 with a VIOLATION line
  broken    some check exits 2 (ANALYSIS-ERROR: an anchor or idiom vanished) and none exits 1
  survived  every check exits 0   -> to be triaged by hand: equivalent / irrelevant to the property / a gap in the rules

    /venv/bin/python tools/mutsweep.py C14 C20 --jobs 14 --out /tmp/sweep.jsonl
"""
from __future__ import annotations

import argparse
import ast
import concurrent.futures as cf
import json
import os
import re
import shutil
import subprocess
import sys
import tempfile

VERIF = os.path.dirname(os.path.dirname(os.path.abspath(__file__)))
BASE = "9e0b284"  # the tree as received; anchors' line numbers refer to it


def anchored_functions(repo, props):
    """{(relpath, qualname): set(props)} for the current tree."""
    want = {}
    for line in open(os.path.join(VERIF, "properties.jsonl")):
        p = json.loads(line)
        if props and p["id"] not in props:
            continue
        for m in p["anchors"]["mechanism"]:
            for part in m["where"].split(";"):
                part = part.strip()
                if ":" not in part:
                    continue
                path, ranges = part.split(":", 1)
                for r in ranges.split(","):
                    r = r.strip()
                    if not r:
                        continue
                    a, _, b = r.partition("-")
                    want.setdefault(path, []).append((int(a), int(b or a), p["id"]))
    out = {}
    for path, rs in want.items():
        try:
            old = subprocess.run(["git", "-C", repo, "show", f"{BASE}:{path}"], capture_output=True, text=True, check=True).stdout
        except subprocess.CalledProcessError:
            old = open(os.path.join(repo, path)).read()
        tree = ast.parse(old)
        funcs = []

        def walk(node, prefix):
            for ch in ast.iter_child_nodes(node):
                if isinstance(ch, (ast.FunctionDef, ast.AsyncFunctionDef)):
                    funcs.append((prefix + ch.name, ch.lineno, ch.end_lineno))
                    walk(ch, prefix + ch.name + ".")
                elif isinstance(ch, ast.ClassDef):
                    walk(ch, prefix + ch.name + ".")
                else:
                    walk(ch, prefix)

        walk(tree, "")
        for a, b, pid in rs:
            hit = False
            for q, lo, hi in funcs:
                if lo <= b and a <= hi:
                    # innermost-only is not needed: nested defs are rare here
                    out.setdefault((path, q), set()).add(pid)
                    hit = True
            if not hit:
                out.setdefault((path, "<module>"), set()).add(pid)
    return out


CMP_SWAP = {ast.Lt: "<=", ast.LtE: "<", ast.Gt: ">=", ast.GtE: ">", ast.Eq: "!=", ast.NotEq: "==", ast.Is: "is not", ast.IsNot: "is", ast.In: "not in", ast.NotIn: "in"}


class Src:
    def __init__(self, text):
        self.text = text
        self.lines = text.split("\n")
        self.b = [ln.encode("utf-8") for ln in self.lines]
        self.starts = []
        off = 0
        for ln in self.lines:
            self.starts.append(off)
            off += len(ln) + 1

    def off(self, lineno, col):
        # col is a utf-8 byte offset
        return self.starts[lineno - 1] + len(self.b[lineno - 1][:col].decode("utf-8"))

    def span(self, node):
        return self.off(node.lineno, node.col_offset), self.off(node.end_lineno, node.end_col_offset)

    def seg(self, node):
        a, b = self.span(node)
        return self.text[a:b]


def mutations(src: Src, fn: ast.AST):
    """Yield (start, end, replacement, operator, lineno)."""
    for node in ast.walk(fn):
        if node is not fn and isinstance(node, (ast.FunctionDef, ast.AsyncFunctionDef, ast.ClassDef)):
            pass  # still walk nested
        # --- tests
        if isinstance(node, (ast.If, ast.While, ast.IfExp, ast.Assert)):
            t = node.test
            a, b = src.span(t)
            yield a, b, f"not ({src.text[a:b]})", "negate-test", t.lineno
            if isinstance(node, ast.If):
                yield a, b, "True", "test-true", t.lineno
                yield a, b, "False", "test-false", t.lineno
        if isinstance(node, ast.comprehension):
            for t in node.ifs:
                a, b = src.span(t)
                yield a, b, f"not ({src.text[a:b]})", "negate-filter", t.lineno
                yield a, b, "True", "drop-filter", t.lineno
        if isinstance(node, ast.BoolOp):
            for i, v in enumerate(node.values):
                others = [src.seg(x) for j, x in enumerate(node.values) if j != i]
                op = " and " if isinstance(node.op, ast.And) else " or "
                a, b = src.span(node)
                yield a, b, "(" + op.join(others) + ")", f"drop-operand-{i}", node.lineno
            a, b = src.span(node)
            op = " or " if isinstance(node.op, ast.And) else " and "
            yield a, b, "(" + op.join("(" + src.seg(x) + ")" for x in node.values) + ")", "and<->or", node.lineno
        if isinstance(node, ast.UnaryOp) and isinstance(node.op, ast.Not):
            a, b = src.span(node)
            yield a, b, "(" + src.seg(node.operand) + ")", "drop-not", node.lineno
        if isinstance(node, ast.Compare) and len(node.ops) == 1:
            opn = node.ops[0]
            if type(opn) in CMP_SWAP:
                l, r = src.seg(node.left), src.seg(node.comparators[0])
                a, b = src.span(node)
                yield a, b, f"({l} {CMP_SWAP[type(opn)]} {r})", "cmp-swap", node.lineno
                if isinstance(opn, (ast.Lt, ast.LtE)):
                    yield a, b, f"({l} {'>' if isinstance(opn, ast.Lt) else '>='} {r})", "cmp-reverse", node.lineno
                if isinstance(opn, (ast.Gt, ast.GtE)):
                    yield a, b, f"({l} {'<' if isinstance(opn, ast.Gt) else '<='} {r})", "cmp-reverse", node.lineno
        # --- statements
        if isinstance(node, ast.Expr) and isinstance(node.value, (ast.Call, ast.Await)):
            a, b = src.span(node)
            yield a, b, "pass", "delete-call", node.lineno
        if isinstance(node, (ast.Assign, ast.AugAssign, ast.AnnAssign)) and getattr(node, "value", None) is not None:
            a, b = src.span(node)
            yield a, b, "pass", "delete-assign", node.lineno
            if isinstance(node, ast.AugAssign):
                tgt, val = src.seg(node.target), src.seg(node.value)
                swap = {ast.Add: "-=", ast.Sub: "+="}.get(type(node.op))
                if swap:
                    yield a, b, f"{tgt} {swap} {val}", "augassign-swap", node.lineno
        if isinstance(node, ast.Raise):
            a, b = src.span(node)
            yield a, b, "pass", "delete-raise", node.lineno
        if isinstance(node, ast.Return) and node.value is not None:
            a, b = src.span(node)
            if not (isinstance(node.value, ast.Constant) and node.value.value is None):
                yield a, b, "return None", "return-none", node.lineno
            if isinstance(node.value, ast.Constant) and isinstance(node.value.value, bool):
                yield a, b, f"return {not node.value.value}", "return-flip", node.lineno
        if isinstance(node, ast.Break):
            a, b = src.span(node)
            yield a, b, "continue", "break->continue", node.lineno
        if isinstance(node, ast.Continue):
            a, b = src.span(node)
            yield a, b, "break", "continue->break", node.lineno
        if isinstance(node, ast.Delete):
            a, b = src.span(node)
            yield a, b, "pass", "delete-del", node.lineno
        # --- constants
        if isinstance(node, ast.Constant):
            a, b = src.span(node)
            v = node.value
            if isinstance(v, bool):
                yield a, b, str(not v), "bool-flip", node.lineno
            elif isinstance(v, int):
                yield a, b, str(v + 1), "int+1", node.lineno
                if v:
                    yield a, b, str(v - 1), "int-1", node.lineno
            elif v is None:
                pass
        # --- calls
        if isinstance(node, ast.Call):
            f = node.func
            if isinstance(f, ast.Name) and f.id in ("min", "max") and len(node.args) >= 2:
                a, b = src.span(f)
                yield a, b, "max" if f.id == "min" else "min", "min<->max", node.lineno
            if isinstance(f, ast.Attribute) and not node.args and not node.keywords and f.attr in ("lower", "upper", "copy", "strip", "encode"):
                a, b = src.span(node)
                yield a, b, "(" + src.seg(f.value) + ")", f"drop-.{f.attr}()", node.lineno
            if isinstance(f, ast.Attribute) and f.attr in ("rpartition", "partition", "rsplit", "split", "lstrip", "rstrip", "appendleft", "append", "popleft", "pop"):
                swap = {"rpartition": "partition", "partition": "rpartition", "rsplit": "split", "split": "rsplit", "lstrip": "rstrip", "rstrip": "lstrip",
                        "appendleft": "append", "append": None, "popleft": "pop", "pop": None}[f.attr]
                if swap:
                    a0 = src.off(f.end_lineno, f.end_col_offset) - len(f.attr)
                    yield a0, a0 + len(f.attr), swap, f".{f.attr}->.{swap}", node.lineno
            if isinstance(f, ast.Name) and f.id == "reversed" and len(node.args) == 1:
                a, b = src.span(node)
                yield a, b, "(" + src.seg(node.args[0]) + ")", "drop-reversed", node.lineno
            for kw in node.keywords:
                if kw.arg and isinstance(kw.value, ast.Constant) and isinstance(kw.value.value, bool):
                    continue  # covered by bool-flip
        # --- arithmetic
        if isinstance(node, ast.BinOp) and isinstance(node.op, (ast.Add, ast.Sub)):
            l, r = src.seg(node.left), src.seg(node.right)
            a, b = src.span(node)
            if not (isinstance(node.left, ast.Constant) and isinstance(node.left.value, (str, bytes))) and not (isinstance(node.right, ast.Constant) and isinstance(node.right.value, (str, bytes))):
                yield a, b, f"({l} {'-' if isinstance(node.op, ast.Add) else '+'} {r})", "+<->-", node.lineno
        # --- except clauses
        if isinstance(node, ast.ExceptHandler) and node.type is not None and isinstance(node.type, ast.Tuple) and len(node.type.elts) > 1:
            for i, e in enumerate(node.type.elts):
                others = [src.seg(x) for j, x in enumerate(node.type.elts) if j != i]
                a, b = src.span(node.type)
                yield a, b, "(" + ", ".join(others) + ",)", f"drop-exc-{src.seg(e)}", node.lineno
        # --- subscripts / slices constant handled by int+1


def find_function(tree, qual):
    parts = qual.split(".")
    node = tree
    for p in parts:
        nxt = None
        for ch in ast.walk(node) if node is tree and False else ast.iter_child_nodes(node):
            if isinstance(ch, (ast.FunctionDef, ast.AsyncFunctionDef, ast.ClassDef)) and ch.name == p:
                nxt = ch
                break
        if nxt is None:
            # look inside If/Try at module or class level
            for ch in ast.walk(node):
                if isinstance(ch, (ast.FunctionDef, ast.AsyncFunctionDef, ast.ClassDef)) and ch.name == p:
                    nxt = ch
                    break
        if nxt is None:
            return None
        node = nxt
    return node


def enumerate_mutants(repo, props):
    af = anchored_functions(repo, props)
    out = []
    for (path, qual), pids in sorted(af.items()):
        full = os.path.join(repo, path)
        text = open(full).read()
        tree = ast.parse(text)
        src = Src(text)
        if qual == "<module>":
            continue
        fn = find_function(tree, qual)
        if fn is None:
            print(f"# function {path}:{qual} not found in the current tree", file=sys.stderr)
            continue
        seen = set()
        for a, b, rep, op, ln in mutations(src, fn):
            if (a, b, rep) in seen or src.text[a:b] == rep:
                continue
            seen.add((a, b, rep))
            new = text[:a] + rep + text[b:]
            try:
                compile(new, full, "exec")
            except (SyntaxError, ValueError):
                continue
            out.append({"file": path, "func": qual, "props": sorted(pids), "op": op, "line": ln, "start": a, "end": b,
                        "old": text[a:b], "new": rep, "ctx": src.lines[ln - 1].strip()[:160]})
    return out


_WORK = {}


def _workdir(repo):
    pid = os.getpid()
    if pid not in _WORK:
        tmp = tempfile.mkdtemp(prefix="w_", dir=os.environ["SA_SWEEP_PARENT"])
        shutil.copytree(os.path.join(repo, "src"), os.path.join(tmp, "src"), ignore=shutil.ignore_patterns("__pycache__"))
        _WORK[pid] = tmp
    return _WORK[pid]


def run_mutant(args):
    repo, m, only_props = args
    tmp = _workdir(repo)
    rel = m["file"]
    orig = open(os.path.join(repo, rel)).read()
    tgt = os.path.join(tmp, rel)
    open(tgt, "w").write(orig[:m["start"]] + m["new"] + orig[m["end"]:])
    res = {}
    try:
        for p in m["props"]:
            if only_props and p not in only_props:
                continue
            env = dict(os.environ, VERIF_REPO=tmp, VERIF_EVIDENCE_DIR=os.path.join(tmp, "ev"), PYTHONPATH=VERIF)
            env.pop("VERIF_TIER", None)
            try:
                r = subprocess.run([sys.executable, "-m", "sa.check", p, "--tier", "quick"], cwd=VERIF, env=env, capture_output=True, text=True, timeout=900)
                rules = sorted(set(re.findall(r"rule (\S+) fails", r.stdout)))
                err = ""
                if r.returncode == 2:
                    mm = re.search(r"ANALYSIS-ERROR[^\n]*", r.stdout)
                    err = mm.group(0)[:200] if mm else ""
                res[p] = {"exit": r.returncode, "rules": rules, "err": err}
            except subprocess.TimeoutExpired:
                res[p] = {"exit": -1, "rules": [], "err": "timeout"}
    finally:
        open(tgt, "w").write(orig)
    exits = [v["exit"] for v in res.values()]
    status = "killed" if 1 in exits else ("broken" if any(e not in (0, 1) for e in exits) else "survived")
    return dict(m, result=res, status=status)


def _cleanup():
    for d in _WORK.values():
        shutil.rmtree(d, ignore_errors=True)


def main():
    ap = argparse.ArgumentParser()
    ap.add_argument("props", nargs="*")
    ap.add_argument("--jobs", type=int, default=14)
    ap.add_argument("--out", default="/tmp/sweep.jsonl")
    ap.add_argument("--list", action="store_true")
    ap.add_argument("--func")
    ap.add_argument("--limit", type=int)
    a = ap.parse_args()
    repo = os.environ.get("VERIF_REPO", "/repo")
    props = {p.upper() for p in a.props}
    muts = enumerate_mutants(repo, props)
    if a.func:
        muts = [m for m in muts if a.func in m["func"]]
    if a.limit:
        muts = muts[:a.limit]
    print(f"{len(muts)} mutants over {len({(m['file'], m['func']) for m in muts})} functions", file=sys.stderr)
    if a.list:
        for m in muts:
            print(m["file"], m["func"], m["line"], m["op"], "|", m["old"][:50].replace("\n", " "), "->", m["new"][:50].replace("\n", " "))
        return 0
    import multiprocessing as mp

    parent = tempfile.mkdtemp(prefix="sa_sweeprun_", dir=os.environ.get("VERIF_SCRATCH", "/tmp"))
    os.environ["SA_SWEEP_PARENT"] = parent  # workers create their scratch copies below it; only this run's copies are removed at the end

    n = {"killed": 0, "broken": 0, "survived": 0}
    with open(a.out, "w") as fh, mp.Pool(a.jobs) as pool:
        try:
            for r in pool.imap_unordered(run_mutant, [(repo, m, props) for m in muts]):
                n[r["status"]] += 1
                fh.write(json.dumps(r) + "\n")
                fh.flush()
                tot = sum(n.values())
                if tot % 25 == 0:
                    print(f"  {tot}/{len(muts)} {n}", file=sys.stderr)
        finally:
            pass
    shutil.rmtree(parent, ignore_errors=True)
    print(json.dumps(n))
    return 0


if __name__ == "__main__":
    sys.exit(main())
