#!/bin/bash
# run all 20 quick checks in parallel; prints one line per property
cd /verif
D=$(mktemp -d /tmp/sa_quick_XXXX)
for p in C01 C02 C03 C04 C05 C06 C07 C08 C09 C10 C11 C12 C13 C14 C15 C16 C17 C18 C19 C20; do
  ( /venv/bin/python -m sa.check $p > $D/$p.out 2>&1; echo "$p exit=$? $(tail -1 $D/$p.out | cut -c1-100)" > $D/$p.res ) &
done
wait
cat $D/*.res
rm -rf $D
