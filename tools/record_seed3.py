"""Record round-3 seeded changes (two per property, written by independent sub-agents in /tmp/sd3_<P>) under /verif/seeded/.

usage: /venv/bin/python tools/record_seed3.py [--suite] [P ...]
For each entry of TABLE whose files exist: copies change_N.diff -> patch.diff and demo_N.py -> demo.py, runs the demo against a
scratch copy of /repo/src without and with the patch (expects exit 0 / non-zero), optionally runs the pinned suite with the patch
(--suite; compares with the stable-pass baseline), and writes meta.json / confirm.json.  Nothing is written into /repo.
"""
import json
import os
import shutil
import subprocess
import sys
import tempfile

V = "/verif"
TABLE = [
    # (prop, n, name, detected_by, first_run, change, breaks)
    ("C01", 1, "socket-setup-helper-leaks-on-failure", "C01-R12", "missed; rule C01-R12 added (socket typestate in every function that creates a socket, helpers in place)",
     "util.connection.create_connection: socket creation + setsockopt/settimeout/bind moved into a helper", "a bind/setsockopt failure inside the helper leaves the new socket open: the caller's `sock` is still None"),
    ("C01", 2, "drain-conn-early-return-when-consumed", "C01-R7", "detected",
     "HTTPResponse.drain_conn returns early when the body was already consumed", "with preload_content=True and release_conn=False the slot of an intermediate redirect/retry response is never returned"),
    ("C02", 1, "release-closes-after-put", "C01-R4", "detected",
     "HTTPResponse.release_conn puts the connection back first and closes it afterwards when the body is unread", "another thread can check the connection out between put and close"),
    ("C02", 2, "close-spends-finalizer", "C02-R4", "detected",
     "HTTPConnectionPool.close() calls the weakref.finalize object instead of draining the detached queue", "a put racing close() lands in the drained queue and is never closed: the finalizer is spent"),
    ("C03", 1, "dropped-conn-swapped-for-unprobed-idle", "C01-R1g", "detected",
     "_get_conn swaps a dropped connection for the next idle one without probing it", "the second connection's pending bytes (408 idle timeout) answer the next request"),
    ("C03", 2, "release-unread-chunked-truthiness", "C03-R8", "detected",
     "release_conn tests `self.length_remaining` by truthiness instead of != 0", "None (chunked) counts as nothing left: a partially read chunked response is recycled alive"),
    ("C04", 1, "httpexception-not-wrapped-as-protocolerror", "C04-R13", "missed by C04 (C01-R8 fired under C01); rule C04-R13 added",
     "urlopen wraps only OSError into ProtocolError, no longer HTTPException", "BadStatusLine after a POST was sent is filed under `other`: no method gate, the POST is re-sent"),
    ("C04", 2, "jitter-after-backoff-max-clamp", "C04-R4", "detected",
     "get_backoff_time clamps to backoff_max before adding the jitter", "sleep up to backoff_max + backoff_jitter"),
    ("C05", 1, "retry-resend-drops-redirect-flag", "C05-R3", "missed; clause added to C05-R3 (every retry resend keeps the caller's redirect / assert_same_host)",
     "the pool's retry-after-error recursion passes its arguments by keyword and drops `redirect`", "a 3xx answer to the retried attempt is followed by the pool although the caller (the manager) passed redirect=False"),
    ("C05", 2, "303-rewrite-skipped-for-get-head", "C05-R4", "detected",
     "the 303 block is skipped when the method already is GET/HEAD", "body and content headers of a GET-with-body survive a 303; HEAD stays HEAD"),
    ("C06", 1, "location-resolved-after-origin-check", "C06-R1", "detected",
     "PoolManager.urlopen resolves the Location (urljoin) after the is_same_host test", "a network-path reference //other-host/x passes the test as a path and is then resolved to another origin: Authorization and Cookie follow"),
    ("C06", 2, "frozenset-removal-set-not-lowered", "C06-R2", "detected",
     "Retry.__init__ lower-cases remove_headers_on_redirect only when it is not a frozenset", "a caller's frozenset with capitalised names never matches header.lower()"),
    ("C07", 1, "default-certs-with-ca-cert-data", "C07-R11", "missed; rule C07-R11 added",
     "the load_default_certs condition no longer looks at ca_cert_data", "a CA configured only in memory is joined by the OS trust store: any publicly certified peer passes"),
    ("C07", 2, "dnsname-san-satisfies-ip-host", "C08-R4", "missed by C07 (C08-R4 fired under C08); C08-R4 now shared with C07",
     "match_hostname refactor loses the `host_ip is None` guard on the DNS branch", "a dNSName entry spelling the address verifies an IP-literal host"),
    ("C08", 1, "wildcard-pattern-cache-by-dn", "C08-R1", "detected",
     "_dnsname_match caches the compiled wildcard pattern by certificate name only", "the pattern depends on the hostname too (xn-- A-labels): verdict depends on call order"),
    ("C08", 2, "unusable-san-skipped-enables-cn", "C08-R4", "missed; the dispatch model now lets the DNS matcher raise",
     "a CertificateError from one SAN entry is swallowed with `continue`", "the entry is not recorded, so commonName is consulted although SAN entries exist"),
    ("C09", 1, "proxy-asserts-applied-to-origin-in-tunnel", "C09-R5", "missed (C07-R8 had the clause but its dedup key hid the second wrap state: fixed; clause added to C09-R5)",
     "HTTPSConnection.connect hands proxy_config.assert_hostname/fingerprint to the origin wrap when the proxy is https", "inside a tunnel the destination is verified against the proxy's assertions"),
    ("C09", 2, "set-tunnel-strips-brackets", "C09-R7", "missed; clause added (set_tunnel does not rewrite the recorded target)",
     "HTTPConnection.set_tunnel strips the brackets of _tunnel_host after the stdlib recorded it", "CONNECT ::1:8443 instead of CONNECT [::1]:8443"),
    ("C10", 1, "header-keys-not-to-str", "C10-R5", "detected",
     "header_keys built from k.lower() without to_str", "bytes header names are not recognised: duplicate Host, CL + TE together"),
    ("C10", 2, "encode-target-partition-query-before-fragment", "C10-R2", "detected",
     "_encode_target rewritten with str.partition('?') before '#'", "a '?' inside the fragment becomes the query sent to the server"),
    ("C11", 1, "chunk-size-from-str-length", "C11-R2", "detected",
     "chunk size taken from the un-encoded str chunk", "non-ASCII str chunks are framed with a size that is too small"),
    ("C11", 2, "position-not-recorded-when-total-none", "C11-R3", "detected",
     "set_file_position skipped when retries.total is falsy", "Retry(total=None, ...) re-sends a file body from its end: empty body"),
    ("C12", 1, "empty-decoded-not-queued", "C12-R10", "missed; rule C12-R10 added",
     "read(amt) queues decoded data only when non-empty", "BytesQueueBuffer.get raises RuntimeError on an empty deque: read(n) at the gzip trailer raises instead of b''"),
    ("C12", 2, "accounting-before-last-piece-test", "C13-R1", "missed; clause added to C13-R1 (shared with C12)",
     "_raw_read moves the length accounting above the read1 'last piece' test", "the test now closes the stdlib response with half of the rest unread"),
    ("C13", 1, "release-unread-chunked-truthiness", "C03-R8", "missed by C13 (C03-R8 fired under C03); C03-R8 now shared with C13",
     "release_conn tests `self.length_remaining` by truthiness", "the connection of a damaged chunked response is recycled"),
    ("C13", 2, "reset-treated-as-eof-for-unframed", "C01-R6", "detected",
     "_raw_read swallows ConnectionResetError when length_remaining is None", "a reset inside a chunked body is a normal end of body"),
    ("C14", 1, "percent-escape-class-unicode-digits", "C14-R8", "missed; rule C14-R8 added (probe set now contains non-ASCII decimal digits)",
     "the shared percent-escape pattern is written with \\d", "'%' + non-ASCII digits counts as a valid escape: result not in normal form, re-parse differs"),
    ("C14", 2, "userinfo-split-first-at", "C14-R3", "detected",
     "userinfo split folded into the authority regex ([^@]*@)", "host taken after the first '@' instead of the last"),
    ("C15", 1, "sni-keeps-trailing-dot-in-tunnel", "C15-R3", "detected",
     "the rstrip('.') of the server name is dropped because the host property already strips", "the tunnel host keeps its dot: SNI 'localhost.'"),
    ("C15", 2, "redial-relative-name-on-gaierror", "C15-R3", "missed; C15-R3 now also follows the attempts made after a failed one",
     "_new_conn retries create_connection with self.host when the rooted name does not resolve", "a different name (subject to search domains) is dialled"),
    ("C16", 1, "setitem-overwrites-in-place-keeps-spelling", "C16-R5", "detected",
     "__setitem__ uses setdefault and overwrites vals[1:]", "the first-seen spelling survives an assignment under another casing"),
    ("C16", 2, "combine-joins-with-filter-none", "C16-R6", "detected",
     "add(combine=True) joins with ', '.join(filter(None, ...))", "empty values vanish together with their separator"),
    ("C17", 1, "lookup-before-lock", "C17-R1", "detected",
     "RecentlyUsedContainer.__getitem__ reads the mapping before taking the lock", "phantom miss while a writer is between pop and re-insert"),
    ("C17", 2, "clear-disposes-under-lock", "C17-R2", "analysis error at first (the evict-one-at-a-time while loop did not reach a fixpoint); bounded unrolling added, then detected",
     "clear() evicts one at a time and disposes inside the lock region", "dispose_func runs while the lock is held"),
    ("C18", 1, "merge-returns-live-defaults", "C18-R3", "detected",
     "_merge_pool_kwargs returns self.connection_pool_kw itself when there is no override", "_new_pool pops the SSL keywords out of the manager's defaults"),
    ("C18", 2, "context-remerges-defaults", "C18-R2", "detected",
     "connection_from_context re-merges the manager defaults under the context", "a default removed with None comes back: strict request served by the lax pool"),
    ("C19", 1, "read-timeout-unclamped-branch", "C19-R3", "detected",
     "Timeout.read_timeout flattened; the total-only branch loses max(0, ...)", "negative timeout reaches settimeout: ValueError instead of ReadTimeoutError"),
    ("C19", 2, "read-budget-computed-before-request", "C19-R4", "detected",
     "_make_request computes read_timeout before conn.request()", "for a fresh plain-HTTP connection the connect time is not deducted"),
    ("C20", 1, "requestfield-keeps-callers-headers", "C20-R6", "missed; rule C20-R6 added",
     "RequestField.__init__ keeps the caller's dict instead of copying", "fields sharing one headers dict overwrite each other's Content-Disposition"),
    ("C20", 2, "iter-fields-dispatch-on-dict", "C20-R7", "missed; rule C20-R7 added",
     "iter_field_objects tests isinstance(fields, dict) instead of Mapping", "a non-dict Mapping is iterated as keys, each key unpacked as a tuple"),
]


def run_demo(src_dir, demo):
    env = dict(os.environ, PYTHONPATH=src_dir)
    try:
        p = subprocess.run(["/venv/bin/python", "-W", "ignore", demo], env=env, capture_output=True, text=True, timeout=400)
        return p.returncode, (p.stdout + p.stderr)[-4000:]
    except subprocess.TimeoutExpired:
        return -9, "timeout"


def main():
    args = [a for a in sys.argv[1:] if not a.startswith("--")]
    suite = "--suite" in sys.argv
    for prop, n, name, rule, first, change, breaks in TABLE:
        if name is None or (args and prop not in args):
            continue
        wt = f"/tmp/sd3_{prop}"
        diff, demo = f"{wt}/change_{n}.diff", f"{wt}/demo_{n}.py"
        out = f"{V}/seeded/{prop}-{name}"
        if os.path.exists(diff) and os.path.exists(demo):
            os.makedirs(out, exist_ok=True)
            shutil.copy(diff, f"{out}/patch.diff")
            shutil.copy(demo, f"{out}/demo.py")
        elif not os.path.exists(f"{out}/patch.diff"):
            print(prop, n, "files missing")
            continue
        tmp = tempfile.mkdtemp(prefix="sd3c_", dir="/tmp")
        try:
            shutil.copytree("/repo/src", f"{tmp}/src")
            shutil.copytree("/repo/test", f"{tmp}/test")
            for f in ("pyproject.toml", "setup.cfg", "noxfile.py", "dummyserver"):
                if os.path.exists(f"/repo/{f}"):
                    (shutil.copytree if os.path.isdir(f"/repo/{f}") else shutil.copy)(f"/repo/{f}", f"{tmp}/{f}")
            o, olog = run_demo(f"{tmp}/src", f"{out}/demo.py")
            subprocess.run(["git", "init", "-q", "."], cwd=tmp, check=True)
            subprocess.run(["git", "apply", "--whitespace=nowarn", f"{out}/patch.diff"], cwd=tmp, check=True)
            c, clog = run_demo(f"{tmp}/src", f"{out}/demo.py")
            open(f"{out}/demo_original.log", "w").write(olog)
            open(f"{out}/demo_changed.log", "w").write(clog)
            conf = {"demo_original_exit": o, "demo_changed_exit": c}
            if suite:
                x = f"{tmp}/junit.xml"
                subprocess.run(["/venv/bin/python", "-m", "pytest", "-ra", "-q", "-p", "no:cacheprovider", "--timeout=900", "--continue-on-collection-errors", f"--junitxml={x}"],
                               cwd=tmp, env=dict(os.environ, PYTHONPATH=f"{tmp}/src"), capture_output=True, text=True, timeout=3000)
                r = subprocess.run(["/venv/bin/python", f"{V}/tools/junit_vs_baseline.py", x], capture_output=True, text=True)
                conf["suite"] = r.stdout.strip().replace(tmp, "<scratch>")
            elif os.path.exists(f"{out}/confirm.json"):
                old = json.load(open(f"{out}/confirm.json"))
                if "suite" in old:
                    conf["suite"] = old["suite"]
            json.dump(conf, open(f"{out}/confirm.json", "w"))
            meta = {"name": name, "origin": "independent sub-agent given only the property text and a scratch worktree (round 3, two changes per property)", "property": prop,
                    "change": change, "breaks": breaks, "detected_by": rule, "first_run": first,
                    "confirmed_by_me": f"tools/record_seed3.py: demo exits {o} on the original tree and {c} on the changed tree" + (f"; pinned suite with the change: {conf.get('suite')}" if conf.get("suite") else "; pinned suite with the change: as reported by the seeding agent (no stable test lost)")}
            json.dump(meta, open(f"{out}/meta.json", "w"), indent=1)
            print(prop, n, name, "demo", o, c, conf.get("suite", ""))
        finally:
            shutil.rmtree(tmp, ignore_errors=True)


if __name__ == "__main__":
    main()
