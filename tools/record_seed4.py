"""Record round-4 seeded changes (one per property, written by independent sub-agents in /tmp/sd4_<P>) under /verif/seeded/.

usage: /venv/bin/python tools/record_seed4.py [P ...]
Reads /tmp/sd4_<P>/{change.diff, demo.py, meta.txt}; the detection result per property comes from tools/seed4_results.json
({"C01": {"detected_by": "...", "first_run": "..."}, ...}).  Runs the demo against a scratch copy of /repo/src without and with
the patch (expects exit 0 / non-zero) and writes patch.diff, demo.py, logs, meta.json, confirm.json.  Nothing is written into /repo.
"""
import json
import os
import shutil
import subprocess
import sys
import tempfile

V = "/verif"


def run_demo(src_dir, demo):
    try:
        r = subprocess.run(["/venv/bin/python", demo], env=dict(os.environ, PYTHONPATH=src_dir), capture_output=True, text=True, timeout=300)
        return r.returncode, (r.stdout + r.stderr)[-3000:]
    except subprocess.TimeoutExpired:
        return 124, "timeout"


def main():
    args = [a for a in sys.argv[1:] if not a.startswith("--")]
    res = json.load(open(f"{V}/tools/seed4_results.json")) if os.path.exists(f"{V}/tools/seed4_results.json") else {}
    for i in range(1, 21):
        prop = f"C{i:02d}"
        if args and prop not in args:
            continue
        wt = f"/tmp/sd4_{prop}"
        diff, demo, metaf = f"{wt}/change.diff", f"{wt}/demo.py", f"{wt}/meta.txt"
        if not (os.path.exists(diff) and os.path.exists(demo) and os.path.exists(metaf)):
            print(prop, "files missing")
            continue
        mt = {}
        for l in open(metaf):
            if ":" in l:
                k, v = l.split(":", 1)
                mt[k.strip().lower()] = v.strip()
        name = (mt.get("name") or "unnamed").replace(" ", "-")[:70]
        out = f"{V}/seeded/{prop}-{name}"
        os.makedirs(out, exist_ok=True)
        shutil.copy(diff, f"{out}/patch.diff")
        shutil.copy(demo, f"{out}/demo.py")
        txt = open(f"{out}/demo.py").read().replace(wt, "<worktree>")
        open(f"{out}/demo.py", "w").write(txt)
        tmp = tempfile.mkdtemp(prefix="sd4c_", dir="/tmp")
        try:
            shutil.copytree("/repo/src", f"{tmp}/src")
            o, olog = run_demo(f"{tmp}/src", demo)
            subprocess.run(["git", "init", "-q", "."], cwd=tmp, check=True)
            subprocess.run(["git", "apply", "--whitespace=nowarn", f"{out}/patch.diff"], cwd=tmp, check=True)
            c, clog = run_demo(f"{tmp}/src", demo)
            open(f"{out}/demo_original.log", "w").write(olog.replace(tmp, "<scratch>"))
            open(f"{out}/demo_changed.log", "w").write(clog.replace(tmp, "<scratch>"))
            json.dump({"demo_original_exit": o, "demo_changed_exit": c, "agent_tests": mt.get("tests", "")}, open(f"{out}/confirm.json", "w"))
            r = res.get(prop, {})
            meta = {"name": name, "origin": "independent sub-agent given only the property text and a scratch worktree (round 4, one change per property)", "property": prop,
                    "change": mt.get("change", ""), "breaks": mt.get("breaks", ""), "detected_by": r.get("detected_by", "?"), "first_run": r.get("first_run", "?"),
                    "confirmed_by_me": f"tools/record_seed4.py: demo exits {o} on the original tree and {c} on the changed tree; tests run by the agent: {mt.get('tests', '')}"}
            json.dump(meta, open(f"{out}/meta.json", "w"), indent=1)
            print(prop, name, "demo", o, c)
        finally:
            shutil.rmtree(tmp, ignore_errors=True)


if __name__ == "__main__":
    main()
