#!/venv/bin/python
"""Behaviour-preserving refactor used to test that the checkers do not key on local variable names:
copies <repo>/src to <dst>/src and renames every function-local variable (not parameters, not globals/nonlocals,
not names that are also read as globals/builtins) to <name>_rn.  usage: rename_locals.py <dst> [suffix]"""
import ast, builtins, os, shutil, sys, symtable

repo = os.environ.get("VERIF_REPO", "/repo")
dst = sys.argv[1]
suffix = sys.argv[2] if len(sys.argv) > 2 else "_rn"
shutil.rmtree(dst, ignore_errors=True)
shutil.copytree(os.path.join(repo, "src"), os.path.join(dst, "src"), ignore=shutil.ignore_patterns("__pycache__"))


def locals_of(table, acc):
    if table.get_type() == "function":
        names = set()
        for s in table.get_symbols():
            if s.is_local() and not s.is_parameter() and not s.is_global() and not s.is_nonlocal() and not s.is_free() and not s.is_imported():
                # skip names captured by nested scopes (closures) and nested function/class names
                if s.is_namespace():
                    continue
                names.add(s.get_name())
        # names used as free vars in children must keep their name
        for ch in table.get_children():
            for s in ch.get_symbols():
                if s.is_free():
                    names.discard(s.get_name())
        acc[(table.get_name(), table.get_lineno())] = names
    for ch in table.get_children():
        locals_of(ch, acc)


class R(ast.NodeTransformer):
    def __init__(self, acc):
        self.acc = acc
        self.stack = []

    def visit_FunctionDef(self, node):
        names = self.acc.get((node.name, node.lineno), set())
        self.stack.append(names)
        node.body = [self.visit(s) for s in node.body]
        self.stack.pop()
        return node

    visit_AsyncFunctionDef = visit_FunctionDef

    def visit_Lambda(self, node):
        self.stack.append(set())
        self.generic_visit(node)
        self.stack.pop()
        return node

    def visit_Name(self, node):
        if self.stack and node.id in self.stack[-1]:
            node.id = node.id + suffix
        return node

    def visit_ExceptHandler(self, node):
        if self.stack and node.name and node.name in self.stack[-1]:
            node.name = node.name + suffix
        self.generic_visit(node)
        return node

    def visit_ListComp(self, node):
        return node  # comprehension scopes are separate tables; leave untouched

    visit_SetComp = visit_DictComp = visit_GeneratorExp = visit_ListComp


n = 0
for dp, dn, fn in os.walk(os.path.join(dst, "src")):
    for f in fn:
        if not f.endswith(".py"):
            continue
        p = os.path.join(dp, f)
        src = open(p).read()
        acc = {}
        locals_of(symtable.symtable(src, p, "exec"), acc)
        tree = ast.parse(src)
        # names used inside comprehensions of a function must not be renamed (their scope reads the outer local)
        for fnode in ast.walk(tree):
            if isinstance(fnode, (ast.FunctionDef, ast.AsyncFunctionDef)):
                key = (fnode.name, fnode.lineno)
                if key in acc:
                    for c in ast.walk(fnode):
                        if isinstance(c, (ast.ListComp, ast.SetComp, ast.DictComp, ast.GeneratorExp, ast.Lambda)):
                            for x in ast.walk(c):
                                if isinstance(x, ast.Name):
                                    acc[key].discard(x.id)
                        if isinstance(c, (ast.FunctionDef, ast.AsyncFunctionDef)) and c is not fnode:
                            for x in ast.walk(c):
                                if isinstance(x, ast.Name):
                                    acc[key].discard(x.id)
        tree = R(acc).visit(tree)
        out = ast.unparse(tree)
        compile(out, p, "exec")
        open(p, "w").write(out + "\n")
        n += sum(len(v) for v in acc.values())
print("renamed locals in", dst, "candidates:", n)
