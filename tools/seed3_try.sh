#!/bin/bash
# usage: seed3_try.sh <PROP> [extra props,comma]   runs the quick check(s) on /tmp/sd3_<PROP>/change_{1,2}.diff
P=$1; EXTRA=${2:-}
for N in 1 2; do
  f=/tmp/sd3_$P/change_$N.diff
  [ -f $f ] || { echo "$P change_$N: missing"; continue; }
  /verif/tools/try_patches.sh $P${EXTRA:+,$EXTRA} $f 2>&1 | sed "s/^/$P#$N /" | cut -c1-700
done
