#!/bin/bash
# usage: seed4_try.sh <PROP> [extra props,comma]   runs the quick check(s) on /tmp/sd4_<PROP>/change.diff
P=$1; EXTRA=${2:-}
f=/tmp/sd4_$P/change.diff
[ -f $f ] || { echo "$P change: missing"; exit 0; }
/verif/tools/try_patches.sh $P${EXTRA:+,$EXTRA} $f 2>&1 | sed "s/^/$P /" | cut -c1-700
