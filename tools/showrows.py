"""Debug aid: print the effect rows of a method/function under the generic rule.
usage: python tools/showrows.py urllib3.util.retry.Retry.sleep [--inline-private] [--event time.sleep=sleep]"""
import sys
sys.path.insert(0, "/verif")
from sa.report import Ctx
from sa.rows import GenRule, effect_rows, private_helpers

qual = sys.argv[1]
ctx = Ctx("DBG", "quick")
m = ctx.model
fi = [f for f in m.repo_funcs() if f.qual == qual][0]
evs = {}
inline = frozenset()
for a in sys.argv[2:]:
    if a == "--inline-private":
        inline = private_helpers(m, fi.module, fi.clsq if fi.cls else None)
    elif a.startswith("--event"):
        pass
    elif "=" in a:
        k, v = a.split("=")
        evs[k] = v
rule = GenRule(ctx, fi.module, inline=inline, events=(lambda t, n: evs.get(t)) if evs else None)
rows = effect_rows(ctx, fi, rule, fi.clsq if fi.cls else None)
for r in rows:
    print("ROW", r.out)
    for e in r.ev:
        print("   ev", e)
    for k, v in sorted(r.st.facts.items()):
        print("   fact", k, v)
    for k, v in sorted(r.st.ts.items(), key=str):
        if isinstance(k, tuple) and k[0] in ("cmp", "isinst"):
            print("   ", k, v)
print(len(rows), "rows")
