#!/venv/bin/python
"""Behaviour-preserving refactor: every `if C: A else: B` (B not an elif chain, both non-empty) becomes `if not (C): B else: A`."""
import ast, os, shutil, sys
repo = os.environ.get("VERIF_REPO", "/repo")
dst = sys.argv[1]
shutil.rmtree(dst, ignore_errors=True)
shutil.copytree(os.path.join(repo, "src"), os.path.join(dst, "src"), ignore=shutil.ignore_patterns("__pycache__"))
n = 0
class T(ast.NodeTransformer):
    def visit_If(self, node):
        global n
        self.generic_visit(node)
        if node.orelse and not (len(node.orelse) == 1 and isinstance(node.orelse[0], ast.If)):
            # keep TYPE_CHECKING / version guards at module level untouched (only inside functions)
            node.test, node.body, node.orelse = ast.UnaryOp(op=ast.Not(), operand=node.test), node.orelse, node.body
            n += 1
        return node
for dp, dn, fn in os.walk(os.path.join(dst, "src")):
    for f in fn:
        if not f.endswith(".py"):
            continue
        p = os.path.join(dp, f)
        tree = ast.parse(open(p).read())
        for node in ast.walk(tree):
            if isinstance(node, (ast.FunctionDef, ast.AsyncFunctionDef)):
                node.body = [T().visit(s) for s in node.body]
        ast.fix_missing_locations(tree)
        out = ast.unparse(tree)
        compile(out, p, "exec")
        open(p, "w").write(out + "\n")
print("swapped", n, "if/else in", dst)
