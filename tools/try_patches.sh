#!/bin/bash
# usage: try_patches.sh <PROP[,PROP2..]> <patch>...   applies each patch to a scratch copy of /repo/src and runs the quick check(s) against it
PROPS=$1; shift
for pf in "$@"; do
  T=$(mktemp -d /tmp/sa_try_XXXX); mkdir -p $T; cp -r /repo/src $T/src
  if ! (cd $T && git init -q . && git apply --whitespace=nowarn $pf 2>/tmp/try_err.log); then echo "$pf: DOES-NOT-APPLY $(head -1 /tmp/try_err.log)"; rm -rf $T; continue; fi
  for P in ${PROPS//,/ }; do
    out=$(cd /verif && VERIF_REPO=$T VERIF_EVIDENCE_DIR=$T/ev /venv/bin/python -m sa.check $P 2>&1); rc=$?
    echo "$(basename $pf) $P exit=$rc $(echo "$out" | grep -E 'rule .* fails|ANALYSIS-ERROR' | head -4 | tr '\n' '|' | cut -c1-600)"
  done
  rm -rf $T
done
